import Pdpy11.Model.Directive
/-
C06 — data directives store exactly the stated value or refuse.
Statements are over all `Int` values, all addresses, all moduli and strings of
any length.
-/
namespace Pdpy11.Props.C06
open Pdpy11 Pdpy11.Model Pdpy11.Model.Insn Pdpy11.Model.Directive

/-! ### `get_as_int` -/

/-- signed use: accepted ⇔ `|v| < 2ⁿ` -/
theorem getAsInt_signed_ok_iff (n : Nat) (v : Int) :
    (∃ x, getAsInt (some n) false v = .ok x) ↔ (-(2 ^ n : Int) < v ∧ v < 2 ^ n) := by
  unfold getAsInt
  simp only [Bool.false_and, Bool.false_eq_true, ↓reduceIte]
  by_cases h1 : v ≤ -(2 ^ n : Int)
  · simp [h1] <;> omega
  · by_cases h2 : v ≥ (2 ^ n : Int)
    · simp [h1, h2] <;> omega
    · simp [h1, h2] <;> omega

/-- unsigned use: accepted ⇔ `0 ≤ v < 2ⁿ` -/
theorem getAsInt_unsigned_ok_iff (n : Nat) (v : Int) :
    (∃ x, getAsInt (some n) true v = .ok x) ↔ (0 ≤ v ∧ v < 2 ^ n) := by
  unfold getAsInt
  have hp : (0 : Int) < 2 ^ n := Int.pow_pos (by omega)
  by_cases h0 : v < 0
  · simp [h0] <;> omega
  · by_cases h1 : v ≤ -(2 ^ n : Int)
    · omega
    · by_cases h2 : v ≥ (2 ^ n : Int)
      · simp [h0, h1, h2] <;> omega
      · simp [h0, h1, h2] <;> omega

/-- an accepted value is stored reduced modulo `2ⁿ`, as a number in `0 … 2ⁿ−1` -/
theorem getAsInt_value (n : Nat) (u : Bool) (v x : Int) (h : getAsInt (some n) u v = .ok x) :
    x = v % 2 ^ n ∧ 0 ≤ x ∧ x < 2 ^ n := by
  have hp : (0 : Int) < 2 ^ n := Int.pow_pos (by omega)
  unfold getAsInt at h
  split at h
  · cases h
  · simp only at h
    split at h
    · cases h
    · split at h
      · cases h
      · cases h
        exact ⟨rfl, Int.emod_nonneg _ (by omega), Int.emod_lt_of_pos _ hp⟩

/-- a rejected value reports exactly `value-out-of-bounds` -/
theorem getAsInt_error (b : Option Nat) (u : Bool) (v : Int) (e : String) (h : getAsInt b u v = .error e) :
    e = "value-out-of-bounds" := by
  unfold getAsInt at h
  split at h
  · cases h; rfl
  · split at h
    · cases h
    · split at h
      · cases h; rfl
      · split at h
        · cases h; rfl
        · cases h

/-! ### lists of integer operands -/

/-- the stored form of an accepted operand -/
def cooked (n : Nat) (v : Int) : Nat := (v % 2 ^ n).toNat

theorem getAsIntM_ok (n : Nat) (u : Bool) (v : Int) (l : Log) (h : ∃ x, getAsInt (some n) u v = .ok x) :
    getAsIntM (some n) u v l = ⟨.ok (cooked n v), l⟩ := by
  obtain ⟨x, hx⟩ := h
  have := (getAsInt_value n u v x hx).1
  simp [getAsIntM, hx, cooked, this]

theorem getAsIntM_fail (n : Nat) (u : Bool) (v : Int) (l : Log) (h : ¬ ∃ x, getAsInt (some n) u v = .ok x) :
    getAsIntM (some n) u v l = ⟨.error .abort, { l with errs := l.errs ++ ["value-out-of-bounds"] }⟩ := by
  cases hx : getAsInt (some n) u v with
  | ok x => exact absurd ⟨x, hx⟩ h
  | error e =>
    have := getAsInt_error _ _ _ _ hx
    subst this
    simp [getAsIntM, hx]

theorem mapM_all_ok (n : Nat) (u : Bool) (vals : List Int) (l : Log)
    (h : ∀ v ∈ vals, ∃ x, getAsInt (some n) u v = .ok x) :
    mapM' (getAsIntM (some n) u) vals l = ⟨.ok (vals.map (cooked n)), l⟩ := by
  induction vals generalizing l with
  | nil => rfl
  | cons v r ih =>
    have h1 := getAsIntM_ok n u v l (h v (by simp))
    have h2 := ih l (fun w hw => h w (by simp [hw]))
    simp [mapM', h1, h2]

theorem mapM_some_bad (n : Nat) (u : Bool) (vals : List Int) (l : Log)
    (h : ∃ v ∈ vals, ¬ ∃ x, getAsInt (some n) u v = .ok x) :
    mapM' (getAsIntM (some n) u) vals l = ⟨.error .abort, { l with errs := l.errs ++ ["value-out-of-bounds"] }⟩ := by
  induction vals generalizing l with
  | nil => obtain ⟨v, hv, _⟩ := h; simp at hv
  | cons v r ih =>
    by_cases hv : ∃ x, getAsInt (some n) u v = .ok x
    · have h1 := getAsIntM_ok n u v l hv
      have hr : ∃ w ∈ r, ¬ ∃ x, getAsInt (some n) u w = .ok x := by
        obtain ⟨w, hw, hb⟩ := h
        rcases List.mem_cons.mp hw with rfl | hw
        · exact absurd hv hb
        · exact ⟨w, hw, hb⟩
      simp [mapM', h1, ih l hr]
    · simp [mapM', getAsIntM_fail n u v l hv]

/-! ### `.byte` `.word` `.dword` and implicit word lists -/

/-- `.byte`: every value with `|v| < 2⁸` is stored as `v mod 2⁸`, one byte each -/
theorem byte_spec (vals : List Int) (hne : vals ≠ []) (h : ∀ v ∈ vals, -(2 ^ 8 : Int) < v ∧ v < 2 ^ 8) :
    (byteDir vals).run = ⟨.ok (vals.map (cooked 8)), {}⟩ := by
  have hm := mapM_all_ok 8 false vals {} (fun v hv => (getAsInt_signed_ok_iff 8 v).mpr (h v hv))
  simp [byteDir, M.run, hm, hne]

/-- `.byte`: a value that does not fit is an error and nothing is emitted -/
theorem byte_rejects (vals : List Int) (v : Int) (hv : v ∈ vals) (hbad : ¬ (-(2 ^ 8 : Int) < v ∧ v < 2 ^ 8)) :
    (byteDir vals).run = ⟨.error .abort, { errs := ["value-out-of-bounds"], warns := [] }⟩ := by
  have hm := mapM_some_bad 8 false vals {} ⟨v, hv, fun hx => hbad ((getAsInt_signed_ok_iff 8 v).mp hx)⟩
  simp [byteDir, M.run, hm]

/-- `.word` at an even address: each value little-endian -/
theorem word_spec (emit : Int) (vals : List Int) (he : emit % 2 = 0) (hne : vals ≠ [])
    (h : ∀ v ∈ vals, -(2 ^ 16 : Int) < v ∧ v < 2 ^ 16) :
    (wordDir emit vals).run = ⟨.ok ((vals.map (cooked 16)).flatMap le16), {}⟩ := by
  have hm := mapM_all_ok 16 false vals {} (fun v hv => (getAsInt_signed_ok_iff 16 v).mpr (h v hv))
  have ho : ¬ emit % 2 = 1 := by omega
  simp [wordDir, oddPrefix, M.run, hm, hne, ho]

theorem word_rejects (emit : Int) (vals : List Int) (v : Int) (hv : v ∈ vals) (hbad : ¬ (-(2 ^ 16 : Int) < v ∧ v < 2 ^ 16)) :
    (wordDir emit vals).run = ⟨.error .abort, { errs := ["value-out-of-bounds"], warns := [] }⟩ := by
  have hm := mapM_some_bad 16 false vals {} ⟨v, hv, fun hx => hbad ((getAsInt_signed_ok_iff 16 v).mp hx)⟩
  simp [wordDir, M.run, hm]

/-- word data at an odd address is an error -/
theorem odd_word_reports (emit : Int) (vals : List Int) (ho : emit % 2 = 1)
    (h : ∀ v ∈ vals, -(2 ^ 16 : Int) < v ∧ v < 2 ^ 16) :
    "odd-address" ∈ (wordDir emit vals).run.log.errs ∧ "odd-address" ∈ (wordList emit vals).run.log.errs := by
  have hm := mapM_all_ok 16 false vals {} (fun v hv => (getAsInt_signed_ok_iff 16 v).mpr (h v hv))
  constructor
  · by_cases he : vals = []
    · subst he; simp [wordDir, oddPrefix, M.run, mapM', ho]
    · simp [wordDir, oddPrefix, M.run, hm, ho, he]
  · simp [wordList, oddPrefix, M.run, hm, ho]

/-- implicit word list = `.word` (for at least one word) -/
theorem implicit_word_eq_word (emit : Int) (vals : List Int) (hne : vals ≠ []) :
    (wordList emit vals).run = (wordDir emit vals).run := by
  simp only [wordList, wordDir, M.run, bind_apply]
  cases hm : mapM' (getAsIntM (some 16) false) vals {} with
  | mk r l =>
    cases r with
    | error e => rfl
    | ok cookedVals =>
      have : cookedVals.isEmpty = false := by
        cases vals with
        | nil => exact absurd rfl hne
        | cons v rest =>
          simp only [mapM', bind_apply] at hm
          cases h1 : getAsIntM (some 16) false v {} with
          | mk r1 l1 =>
            cases r1 with
            | error e => simp [h1] at hm
            | ok b =>
              simp only [h1] at hm
              cases h2 : mapM' (getAsIntM (some 16) false) rest l1 with
              | mk r2 l2 =>
                cases r2 with
                | error e => simp [h2] at hm
                | ok bs => simp [h2] at hm; rw [← hm.1]; rfl
      simp [this]

/-- little-endian reading of `le16` -/
theorem le16_decode (w : Nat) (h : w < 65536) :
    ∃ lo hi, le16 w = [lo, hi] ∧ lo < 256 ∧ hi < 256 ∧ lo + 256 * hi = w := by
  refine ⟨w % 256, w / 256 % 256, rfl, by omega, by omega, by omega⟩

/-- `.dword`: high word first, each word little-endian -/
theorem dword_high_first (v : Nat) (h : v < 2 ^ 32) :
    ∃ b0 b1 b2 b3, dword32 v = [b0, b1, b2, b3] ∧ b0 < 256 ∧ b1 < 256 ∧ b2 < 256 ∧ b3 < 256 ∧
      (b0 + 256 * b1) * 65536 + (b2 + 256 * b3) = v := by
  refine ⟨v / 65536 % 256, v / 65536 / 256 % 256, v % 65536 % 256, v % 65536 / 256 % 256, rfl, ?_, ?_, ?_, ?_, ?_⟩ <;> omega

theorem dword_spec (emit : Int) (vals : List Int) (he : emit % 2 = 0) (hne : vals ≠ [])
    (h : ∀ v ∈ vals, -(2 ^ 32 : Int) < v ∧ v < 2 ^ 32) :
    (dwordDir emit vals).run = ⟨.ok ((vals.map (cooked 32)).flatMap dword32), {}⟩ := by
  have hm := mapM_all_ok 32 false vals {} (fun v hv => (getAsInt_signed_ok_iff 32 v).mpr (h v hv))
  have ho : ¬ emit % 2 = 1 := by omega
  simp [dwordDir, oddPrefix, M.run, hm, hne, ho]

theorem dword_rejects (emit : Int) (vals : List Int) (v : Int) (hv : v ∈ vals) (hbad : ¬ (-(2 ^ 32 : Int) < v ∧ v < 2 ^ 32)) :
    (dwordDir emit vals).run = ⟨.error .abort, { errs := ["value-out-of-bounds"], warns := [] }⟩ := by
  have hm := mapM_some_bad 32 false vals {} ⟨v, hv, fun hx => hbad ((getAsInt_signed_ok_iff 32 v).mp hx)⟩
  simp [dwordDir, M.run, hm]

/-! ### reserved blocks and alignment -/

theorem blkb_zero (n : Int) (h : 0 ≤ n ∧ n < 2 ^ 16) : (blkb n).run = ⟨.ok (zeros n.toNat), {}⟩ := by
  have := getAsIntM_ok 16 true n {} ((getAsInt_unsigned_ok_iff 16 n).mpr h)
  have hc : cooked 16 n = n.toNat := by unfold cooked; rw [Int.emod_eq_of_lt h.1 h.2]
  simp [blkb, M.run, this, hc]

theorem blkw_zero (n : Int) (h : 0 ≤ n ∧ n < 2 ^ 16) : (blkw n).run = ⟨.ok (zeros (2 * n.toNat)), {}⟩ := by
  have := getAsIntM_ok 16 true n {} ((getAsInt_unsigned_ok_iff 16 n).mpr h)
  have hc : cooked 16 n = n.toNat := by unfold cooked; rw [Int.emod_eq_of_lt h.1 h.2]
  simp [blkw, M.run, this, hc]

/-- a negative (or too large) count is an error, nothing is reserved -/
theorem negative_count_reports (n : Int) (h : ¬ (0 ≤ n ∧ n < 2 ^ 16)) :
    (blkb n).run = ⟨.error .abort, { errs := ["value-out-of-bounds"], warns := [] }⟩ ∧
    (blkw n).run = ⟨.error .abort, { errs := ["value-out-of-bounds"], warns := [] }⟩ := by
  have := getAsIntM_fail 16 true n {} (fun hx => h ((getAsInt_unsigned_ok_iff 16 n).mp hx))
  constructor <;> simp [blkb, blkw, M.run, this]

theorem even_spec (emit : Int) :
    (emit + (even emit).length) % 2 = 0 ∧ (even emit).length ≤ 1 ∧ ∀ b ∈ even emit, b = 0 := by
  unfold even; split <;> (try simp) <;> omega

theorem odd_spec (emit : Int) :
    (emit + (odd emit).length) % 2 = 1 ∧ (odd emit).length ≤ 1 ∧ ∀ b ∈ odd emit, b = 0 := by
  unfold odd; split <;> (try simp) <;> omega

/-- `.align m` (m > 0): zero fill of the least length that makes the address a multiple of `m` -/
theorem align_spec (emit : Int) (m : Int) (hm : 0 < m) (hm16 : m < 2 ^ 16) :
    ∃ bs, (align emit m).run = ⟨.ok bs, {}⟩ ∧ (emit + bs.length) % m = 0 ∧ (bs.length : Int) < m ∧ ∀ b ∈ bs, b = 0 := by
  have hok := getAsIntM_ok 16 true m {} ((getAsInt_unsigned_ok_iff 16 m).mpr ⟨by omega, hm16⟩)
  have hck : cooked 16 m = m.toNat := by unfold cooked; rw [Int.emod_eq_of_lt (by omega) hm16]
  have hc : getAsIntM (some 16) true m {} = ⟨.ok m.toNat, {}⟩ := by rw [hok, hck]
  have hne : ¬ m.toNat = 0 := by omega
  have hcast : ((m.toNat : Nat) : Int) = m := Int.toNat_of_nonneg (by omega)
  refine ⟨zeros ((-emit) % m).toNat, ?_, ?_, ?_, ?_⟩
  · simp [align, M.run, hc, hne, hcast]
  · have h0 : 0 ≤ (-emit) % m := Int.emod_nonneg _ (by omega)
    simp only [zeros, List.length_replicate, Int.toNat_of_nonneg h0]
    have h1 : (emit + (-emit) % m) % m = (emit + -emit) % m := by
      rw [Int.add_emod, Int.emod_emod, ← Int.add_emod]
    rw [h1, Int.add_right_neg, Int.zero_emod]
  · have h0 : 0 ≤ (-emit) % m := Int.emod_nonneg _ (by omega)
    simp only [zeros, List.length_replicate, Int.toNat_of_nonneg h0]
    exact Int.emod_lt_of_pos _ hm
  · intro b hb; simp [zeros] at hb; exact hb.2

/-- a modulus beyond the 16-bit address space is an error, nothing is emitted -/
theorem align_too_large_reports (emit : Int) (m : Int) (hm : 2 ^ 16 ≤ m) :
    (align emit m).run = ⟨.error .abort, { errs := ["value-out-of-bounds"], warns := [] }⟩ := by
  have := getAsIntM_fail 16 true m {} (fun hx => by have := (getAsInt_unsigned_ok_iff 16 m).mp hx; omega)
  simp [align, M.run, this]

/-- `.align 0` and negative moduli are errors -/
theorem align_bad_modulus_reports (emit : Int) (m : Int) (hm : m ≤ 0) :
    (align emit m).run.log.errs = ["value-out-of-bounds"] := by
  by_cases h0 : m = 0
  · subst h0; simp [align, M.run, getAsIntM, getAsInt]
  · have : m < 0 := by omega
    simp [align, M.run, getAsIntM, getAsInt, this]

/-! ### strings -/

def AllStr : List StrChunk → Prop
  | [] => True
  | .str _ :: r => AllStr r
  | .angle _ :: _ => False

def strings : List StrChunk → List Str
  | [] => []
  | .str s :: r => s :: strings r
  | .angle _ :: r => strings r

/-- `.ascii` of string chunks that the charset can encode: exactly their encodings,
    concatenated, nothing reported -/
theorem ascii_bytes (cs : Charset) (chunks : List StrChunk) (h : AllStr chunks) (l : Log)
    (henc : ∀ s ∈ strings chunks, (encodeStr cs s).isSome) :
    asciiImpl cs chunks l = ⟨.ok ((strings chunks).flatMap (fun s => (encodeStr cs s).getD [])), l⟩ := by
  induction chunks generalizing l with
  | nil => rfl
  | cons c r ih =>
    cases c with
    | angle v => exact absurd h (by simp [AllStr])
    | str s =>
      have h1 := henc s (by simp [strings])
      have h2 := ih h l (fun t ht => henc t (by simp [strings, ht]))
      cases he : encodeStr cs s with
      | none => simp [he] at h1
      | some bs => simp [asciiImpl, he, h2, strings]

/-- a chunk the charset cannot encode is reported -/
theorem unencodable_reports (cs : Charset) (pre : List StrChunk) (s : Str) (post : List StrChunk)
    (hpre : AllStr pre) (hp : ∀ t ∈ strings pre, (encodeStr cs t).isSome) (hbad : encodeStr cs s = none) :
    "invalid-character" ∈ (asciiImpl cs (pre ++ .str s :: post)).run.log.errs := by
  have key : ∀ (l : Log) (rest : List StrChunk), "invalid-character" ∈ l.errs →
      "invalid-character" ∈ (asciiImpl cs rest l).log.errs := by
    intro l rest
    induction rest generalizing l with
    | nil => intro h; simpa [asciiImpl] using h
    | cons c r ih =>
      intro h
      cases c with
      | angle v =>
        simp only [asciiImpl, getAsIntDefault, bind_apply]
        cases getAsInt (some 8) true v with
        | ok x =>
          simp only [pure_apply]
          have := ih l h
          cases hr : asciiImpl cs r l with
          | mk rr ll => cases rr <;> simp_all
        | error e =>
          simp only [bind_apply, err_apply, pure_apply]
          have := ih { l with errs := l.errs ++ [e] } (by simp [h])
          cases hr : asciiImpl cs r { l with errs := l.errs ++ [e] } with
          | mk rr ll => cases rr <;> simp_all
      | str t =>
        simp only [asciiImpl, bind_apply]
        cases encodeStr cs t with
        | some bs =>
          simp only [pure_apply]
          have := ih l h
          cases hr : asciiImpl cs r l with
          | mk rr ll => cases rr <;> simp_all
        | none =>
          simp only [bind_apply, err_apply, pure_apply]
          have := ih { l with errs := l.errs ++ ["invalid-character"] } (by simp)
          cases hr : asciiImpl cs r { l with errs := l.errs ++ ["invalid-character"] } with
          | mk rr ll => cases rr <;> simp_all
  induction pre with
  | nil =>
    simp only [List.nil_append, M.run, asciiImpl, hbad, bind_apply, err_apply, pure_apply]
    have := key ⟨["invalid-character"], []⟩ post (by simp)
    revert this
    cases asciiImpl cs post ⟨["invalid-character"], []⟩ with
    | mk rr ll => cases rr <;> simp
  | cons c r ih =>
    cases c with
    | angle v => exact absurd hpre (by simp [AllStr])
    | str t =>
      have h1 := hp t (by simp [strings])
      have ih' := ih hpre (fun u hu => hp u (by simp [strings, hu]))
      cases he : encodeStr cs t with
      | none => simp [he] at h1
      | some bs =>
        simp only [List.cons_append, M.run, asciiImpl, he, bind_apply, pure_apply] at ih' ⊢
        cases hr : asciiImpl cs (r ++ .str s :: post) {} with
        | mk rr ll => cases rr <;> simp_all

/-- `<n>` inside a string is the byte `n` when `0 ≤ n < 256`, an error otherwise -/
theorem angle_byte (cs : Charset) (n : Int) :
    (0 ≤ n ∧ n < 256 → (asciiImpl cs [.angle n]).run = ⟨.ok [n.toNat], {}⟩) ∧
    (¬ (0 ≤ n ∧ n < 256) → (asciiImpl cs [.angle n]).run.log.errs = ["value-out-of-bounds"]) := by
  constructor
  · intro h
    obtain ⟨x, hx⟩ := (getAsInt_unsigned_ok_iff 8 n).mpr (by omega)
    have hv := (getAsInt_value 8 true n x hx).1
    have h8 : n % 256 = n := Int.emod_eq_of_lt h.1 h.2
    simp [asciiImpl, getAsIntDefault, M.run, hx, hv, h8]
  · intro h
    cases hx : getAsInt (some 8) true n with
    | ok x => exact absurd ((getAsInt_unsigned_ok_iff 8 n).mp ⟨x, hx⟩) (by omega)
    | error e =>
      have := getAsInt_error _ _ _ _ hx
      subst this
      simp [asciiImpl, getAsIntDefault, M.run, hx]

/-- every charset stores ASCII letters, digits and punctuation (0x00–0x7E) as themselves -/
theorem ascii_all_charsets (cs : Charset) (c : Nat) (h : c ≤ 0x7E) : encodeChar cs c = some [c] := by
  cases cs
  · -- bk: by complete evaluation of the regenerated table
    have hall : (List.range 0x7F).all (fun c => encodeChar .bk c == some [c]) = true := by decide +kernel
    have := List.all_eq_true.mp hall c (List.mem_range.mpr (by omega))
    simpa using this
  · have : c < 0x80 := by omega
    simp [encodeChar, utf8Char, this]
  · have : c < 256 := by omega
    simp [encodeChar, this]
  · have : c < 0x80 := by omega
    simp [encodeChar, tableChar, this]
  · have : c < 0x80 := by omega
    simp [encodeChar, tableChar, this]

/-! ### non-vacuity -/
example : (wordDir 512 [258, -1]).run = ⟨.ok [2, 1, 255, 255], {}⟩ := by rfl
example : (byteDir [255, -255, 256]).run.r = .error .abort := by rfl
example : (dwordDir 512 [0x12345678]).run = ⟨.ok [0x34, 0x12, 0x78, 0x56], {}⟩ := by rfl
example : (align 5 4).run = ⟨.ok [0, 0, 0], {}⟩ := by rfl
example : (asciiImpl .koi8r [.str [72, 1102], .angle 255]).run = ⟨.ok [72, 0xC0, 255], {}⟩ := by rfl
example : (asciiImpl .latin1 [.str [72, 1102]]).run.log.errs = ["invalid-character"] := by rfl

end Pdpy11.Props.C06
