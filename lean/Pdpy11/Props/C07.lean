import Pdpy11.Model.Cli
/-
C07 — errors fail the build; warnings never change it (in the absence of OS failures).
-/
namespace Pdpy11.Props.C07
open Pdpy11.Model.State Pdpy11.Model.Cli

/-- the reports of a block in closed form: exception in flight, the handler's latch, the log -/
def runEvents : List Sev → Bool → List (Nat × Sev) → (Option Exc × Bool × List (Nat × Sev))
  | [], flag, log => (none, flag, log)
  | e :: r, flag, log =>
    if e = .critical then (some .unrecoverable, (flag || true), log ++ [(0, e)])
    else runEvents r (flag || e != .warning) (log ++ [(0, e)])

theorem run_events (events : List Sev) (flag : Bool) (log : List (Nat × Sev)) :
    run (events.foldr (fun e acc => Comp.seq (.report e) acc) .ret) ⟨0, [], [(0, flag)]⟩ log =
      ((runEvents events flag log).1, ⟨0, [], [(0, (runEvents events flag log).2.1)]⟩, (runEvents events flag log).2.2) := by
  induction events generalizing flag log with
  | nil => simp [run, runEvents]
  | cons e r ih =>
    cases e with
    | warning => simp [run, runEvents, ih]
    | error => simp [run, runEvents, ih]
    | critical => simp [run, runEvents]

/-- latch state after the events, computed directly -/
def anyError (events : List Sev) : Bool := events.any (· != .warning)

theorem runEvents_latch (events : List Sev) (flag : Bool) (log : List (Nat × Sev)) :
    ((runEvents events flag log).1.isSome || (runEvents events flag log).2.1) = (flag || anyError events) := by
  induction events generalizing flag log with
  | nil => simp [runEvents, anyError]
  | cons e r ih =>
    cases e with
    | warning => simp [runEvents, ih, anyError]
    | error => simp [runEvents, ih, anyError, Bool.or_assoc]
    | critical => simp [runEvents, anyError]

/-- the compile block fails exactly when at least one error-severity report was issued -/
theorem blockFails_iff (events : List Sev) : blockFails events = anyError events := by
  have h := runEvents_latch events false []
  simp only [Bool.false_or] at h
  simp only [blockFails, blockComp, run, St.init, run_events, List.head?_cons, List.tail_cons]
  rw [← h]
  generalize (runEvents events false []).1 = x
  generalize (runEvents events false []).2.1 = f
  cases x with
  | none => cases f <;> simp
  | some e => cases f <;> cases e <;> simp

/-- **Exit status is non-zero iff at least one error-severity diagnostic was issued** -/
theorem exit_nonzero_iff_error (opts : Options) (events : List Sev) (n : Nat) :
    (main opts events n).1 ≠ 0 ↔ ∃ e ∈ events, e ≠ Sev.warning := by
  unfold main
  rw [blockFails_iff]
  unfold anyError
  by_cases h : events.any (· != .warning) = true
  · simp only [h, ↓reduceIte]
    simp only [List.any_eq_true] at h
    obtain ⟨x, hx, hne⟩ := h
    exact ⟨fun _ => ⟨x, hx, by simpa using hne⟩, fun _ => by simp⟩
  · simp only [h, Bool.false_eq_true, ↓reduceIte]
    constructor
    · intro hh; exact absurd rfl hh
    · intro ⟨x, hx, hne⟩
      exact absurd (List.any_eq_true.mpr ⟨x, hx, by simpa using hne⟩) h

/-- a failed run writes nothing -/
theorem no_write_on_error (opts : Options) (events : List Sev) (n : Nat) (h : (main opts events n).1 ≠ 0) :
    (main opts events n).2 = [] := by
  unfold main at h ⊢
  by_cases hb : blockFails events = true
  · simp [hb]
  · simp [hb] at h

/-- a run with only warnings succeeds and writes every requested output, in order -/
theorem warnings_only_succeeds (opts : Options) (events : List Sev) (n : Nat) (h : ∀ e ∈ events, e = Sev.warning) :
    (main opts events n).1 = 0 ∧
    (main opts events n).2 = (List.range n).map Write.emitted ++
      (if opts.outfile || (opts.implicitBin && n == 0) then [Write.outfile] else []) ++
      (if opts.lst && ((opts.outfile || (opts.implicitBin && n == 0)) || n > 0) then [Write.listing] else []) := by
  have : anyError events = false := by
    unfold anyError
    simp only [List.any_eq_false]
    intro x hx; simp [h x hx]
  unfold main
  rw [blockFails_iff, this]
  simp

theorem filter_keeps_errors (keep : Nat → Bool) (k : Nat) (events : List Sev) :
    anyError (filterEvents keep k events) = anyError events := by
  induction events generalizing k with
  | nil => rfl
  | cons e r ih =>
    cases e with
    | warning =>
      simp only [filterEvents]
      split
      · simp [anyError, List.any_cons] at ih ⊢; exact ih (k + 1)
      · simp [anyError, List.any_cons] at ih ⊢; exact ih (k + 1)
    | error => have := ih k; simp only [anyError] at this; simp [filterEvents, anyError, List.any_cons, this]
    | critical => have := ih k; simp only [anyError] at this; simp [filterEvents, anyError, List.any_cons, this]

/-- **Which warnings are enabled never changes exit status or the files written** (the report
    format only changes rendering and is not an input of `main` at all) -/
theorem filter_irrelevant (opts : Options) (events : List Sev) (n : Nat) (keep : Nat → Bool) :
    main opts (filterEvents keep 0 events) n = main opts events n := by
  unfold main
  rw [blockFails_iff, blockFails_iff, filter_keeps_errors]

/-- a critical report is an error -/
theorem critical_is_error (opts : Options) (pre post : List Sev) (n : Nat) :
    (main opts (pre ++ Sev.critical :: post) n).1 = 1 := by
  unfold main
  rw [blockFails_iff]
  simp [anyError]

/-! ### non-vacuity -/
example : main ⟨true, false, true⟩ [.warning, .warning] 1 = (0, [.emitted 0, .outfile, .listing]) := by decide
example : main ⟨true, false, true⟩ [.warning, .error, .warning] 1 = (1, []) := by decide
example : main ⟨false, true, true⟩ [] 0 = (0, [.outfile, .listing]) := by decide

end Pdpy11.Props.C07
