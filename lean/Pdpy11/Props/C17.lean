import Pdpy11.Model.LineCol
import Pdpy11.Spec.Scan
/-
C17 — diagnostics point at the culprit: the part that is arithmetic on positions.
-/
namespace Pdpy11.Props.C17
open Pdpy11 Pdpy11.Model.LineCol Pdpy11.Spec.Scan

theorem lastLine_snoc (p : List Nat) (c : Nat) :
    lastLine (p ++ [c]) = if c = 10 then [] else lastLine p ++ [c] := by
  unfold lastLine
  simp only [List.reverse_append, List.reverse_cons, List.reverse_nil, List.nil_append, List.singleton_append]
  by_cases h : c = 10
  · subst h; simp [List.takeWhile]
  · have : (c != 10) = true := by simp [h]
    simp [List.takeWhile, this, h]

theorem countC_snoc (k : Nat) (p : List Nat) (c : Nat) :
    countC k (p ++ [c]) = countC k p + (if c = k then 1 else 0) := by
  unfold countC
  by_cases h : c = k
  · subst h; simp [List.filter_append]
  · have : (c == k) = false := by simp [h]
    simp [List.filter_append, List.filter, this, h]

/-- the formula on a prefix -/
def formula (p : List Nat) : Nat × Nat :=
  (countC 10 p + 1, (lastLine p).length + countC 9 (lastLine p) * 3 + 1)

theorem formula_snoc (p : List Nat) (c : Nat) : formula (p ++ [c]) = step (formula p) c := by
  unfold formula step
  rw [lastLine_snoc, countC_snoc]
  by_cases h10 : c = 10
  · subst h10; simp [countC]
  · by_cases h9 : c = 9
    · subst h9
      simp only [h10, ↓reduceIte, countC_snoc, List.length_append, List.length_singleton]
      refine Prod.ext ?_ ?_ <;> simp <;> omega
    · simp only [h10, h9, ↓reduceIte, countC_snoc, List.length_append, List.length_singleton]
      refine Prod.ext ?_ ?_ <;> simp <;> omega

theorem formula_eq_foldl_rev (r : List Nat) : formula r.reverse = r.reverse.foldl step (1, 1) := by
  induction r with
  | nil => simp [formula, countC, lastLine]
  | cons c r ih =>
    rw [List.reverse_cons, formula_snoc, List.foldl_append, ih]; rfl

theorem formula_eq_foldl (p : List Nat) : formula p = p.foldl step (1, 1) := by
  have := formula_eq_foldl_rev p.reverse
  simpa using this

/-- **The implementation's `count`/`rfind` formula is the left-to-right scan with a tab
counting four columns**, for every text and every position -/
theorem lineCol_eq_scan (code : List Nat) (pos : Nat) : lineCol code pos = scan code pos := by
  unfold lineCol scan
  exact formula_eq_foldl (code.take pos)

/-- lexicographic order on (line, column) -/
def le (a b : Nat × Nat) : Prop := a.1 < b.1 ∨ (a.1 = b.1 ∧ a.2 ≤ b.2)

theorem step_mono (st : Nat × Nat) (c : Nat) : le st (step st c) := by
  unfold step le
  split
  · left; simp
  · split <;> (right; simp)

theorem le_trans {a b c : Nat × Nat} (h1 : le a b) (h2 : le b c) : le a c := by
  unfold le at *
  rcases h1 with h1 | ⟨h1, h1'⟩ <;> rcases h2 with h2 | ⟨h2, h2'⟩
  · left; omega
  · left; omega
  · left; omega
  · right; exact ⟨by omega, by omega⟩

theorem foldl_mono (l : List Nat) (st : Nat × Nat) : le st (l.foldl step st) := by
  induction l generalizing st with
  | nil => right; simp
  | cons c r ih => exact le_trans (step_mono st c) (ih (step st c))

/-- a later position never reports an earlier line:column (so a span with start ≤ end prints
    with start not after end) -/
theorem lineCol_mono (code : List Nat) (p1 p2 : Nat) (h : p1 ≤ p2) : le (lineCol code p1) (lineCol code p2) := by
  rw [lineCol_eq_scan, lineCol_eq_scan]
  unfold scan
  have e : (code.take p2).take p1 = code.take p1 := by rw [List.take_take, Nat.min_eq_left h]
  have : code.take p2 = code.take p1 ++ (code.take p2).drop p1 := by
    calc code.take p2 = (code.take p2).take p1 ++ (code.take p2).drop p1 := (List.take_append_drop _ _).symm
      _ = code.take p1 ++ (code.take p2).drop p1 := by rw [e]
  rw [this, List.foldl_append]
  exact foldl_mono _ _

/-- the reported line never exceeds the number of lines of the text, and line and column
    start at 1 -/
theorem span_inside_file (code : List Nat) (pos : Nat) :
    1 ≤ (lineCol code pos).1 ∧ (lineCol code pos).1 ≤ countC 10 code + 1 ∧ 1 ≤ (lineCol code pos).2 := by
  refine ⟨by simp [lineCol], ?_, by simp [lineCol]⟩
  simp only [lineCol]
  have : countC 10 (code.take pos) ≤ countC 10 code := by
    unfold countC
    exact ((List.take_sublist pos code).filter _).length_le
  omega

/-! ### distinct positions print differently -/

/-- strict lexicographic order on (line, column) -/
def lt (a b : Nat × Nat) : Prop := a.1 < b.1 ∨ (a.1 = b.1 ∧ a.2 < b.2)

theorem step_strict (st : Nat × Nat) (c : Nat) : lt st (step st c) := by
  unfold step lt
  split
  · left; simp
  · split <;> (right; simp)

theorem lt_of_lt_of_le {a b c : Nat × Nat} (h1 : lt a b) (h2 : le b c) : lt a c := by
  unfold lt le at *
  rcases h1 with h1 | ⟨h1, h1'⟩ <;> rcases h2 with h2 | ⟨h2, h2'⟩
  · left; omega
  · left; omega
  · left; omega
  · right; exact ⟨by omega, by omega⟩

theorem lt_irrefl (a : Nat × Nat) : ¬ lt a a := by
  unfold lt; omega

/-- two different positions inside the text never print as the same line:column: a later
    position prints strictly later (so the reported line:column determines the token) -/
theorem lineCol_strict_mono (code : List Nat) (p1 p2 : Nat) (h : p1 < p2) (h2 : p2 ≤ code.length) :
    lt (lineCol code p1) (lineCol code p2) := by
  rw [lineCol_eq_scan, lineCol_eq_scan]
  unfold scan
  have e : (code.take p2).take p1 = code.take p1 := by rw [List.take_take, Nat.min_eq_left (Nat.le_of_lt h)]
  have hs : code.take p2 = code.take p1 ++ (code.take p2).drop p1 := by
    calc code.take p2 = (code.take p2).take p1 ++ (code.take p2).drop p1 := (List.take_append_drop _ _).symm
      _ = code.take p1 ++ (code.take p2).drop p1 := by rw [e]
  rw [hs, List.foldl_append]
  have hl : ((code.take p2).drop p1).length = p2 - p1 := by simp [Nat.min_eq_left h2]
  match hd : (code.take p2).drop p1 with
  | [] => rw [hd] at hl; simp at hl; omega
  | c :: r =>
    simp only [List.foldl_cons]
    exact lt_of_lt_of_le (step_strict _ c) (foldl_mono r _)

theorem lineCol_injective (code : List Nat) (p1 p2 : Nat) (h1 : p1 ≤ code.length) (h2 : p2 ≤ code.length)
    (e : lineCol code p1 = lineCol code p2) : p1 = p2 := by
  rcases Nat.lt_trichotomy p1 p2 with h | h | h
  · exact absurd (e ▸ lineCol_strict_mono code p1 p2 h h2) (lt_irrefl _)
  · exact h
  · exact absurd (e ▸ lineCol_strict_mono code p2 p1 h h1) (lt_irrefl _)

/-- the column lies inside the line it is reported on: at most four columns per character
    of that line before the position -/
theorem col_inside_line (code : List Nat) (pos : Nat) :
    (lineCol code pos).2 ≤ 4 * (lastLine (code.take pos)).length + 1 := by
  simp only [lineCol]
  have : countC 9 (lastLine (code.take pos)) ≤ (lastLine (code.take pos)).length := by
    unfold countC; exact List.length_filter_le _ _
  omega

/-- positions beyond the end of the text all print as the end of the text (why the
    hypothesis `p2 ≤ code.length` of `lineCol_strict_mono` is needed, and what the code
    does there) -/
theorem lineCol_past_end (code : List Nat) (pos : Nat) (h : code.length ≤ pos) :
    lineCol code pos = lineCol code code.length := by
  simp [lineCol, List.take_of_length_le h]

example : lt (lineCol [97, 9, 98, 10, 9, 99, 100] 1) (lineCol [97, 9, 98, 10, 9, 99, 100] 2) := by unfold lt; decide

/-! ### non-vacuity -/
-- (the strict-order example is stated above, next to its theorem)
-- "a\tb\n\tcd": position 7 (the `d`) is line 2, column 6
example : lineCol [97, 9, 98, 10, 9, 99, 100] 6 = (2, 6) ∧ scan [97, 9, 98, 10, 9, 99, 100] 6 = (2, 6) := by decide

end Pdpy11.Props.C17
