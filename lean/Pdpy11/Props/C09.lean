import Pdpy11.Model.Lin
import Pdpy11.Model.Insn
/-
C09 — relocation law: only absolute address words move with the base.
-/
namespace Pdpy11.Props.C09
open Pdpy11.Model Pdpy11.Model.Lin Pdpy11.Model.Insn

/-! ### the affine arithmetic is sound (every operation commutes with choosing the base) -/

theorem valueAt_ofInt (v b : Int) : (ofInt v).valueAt b = v := by simp [ofInt, valueAt]
theorem valueAt_addr (off b : Int) : (addr off).valueAt b = b + off := by simp [addr, valueAt]
theorem valueAt_add (x y : Lin) (b : Int) : (add x y).valueAt b = x.valueAt b + y.valueAt b := by
  simp [add, valueAt, Int.add_mul]; omega
theorem valueAt_sub (x y : Lin) (b : Int) : (sub x y).valueAt b = x.valueAt b - y.valueAt b := by
  simp [sub, valueAt, Int.sub_mul]; omega
theorem valueAt_neg (x : Lin) (b : Int) : (neg x).valueAt b = -(x.valueAt b) := by
  simp [neg, valueAt, Int.neg_mul]; omega
theorem valueAt_scale (x : Lin) (k b : Int) : (scale x k).valueAt b = x.valueAt b * k := by
  simp [scale, valueAt, Int.add_mul, Int.mul_assoc, Int.mul_comm k b]

/-! ### the relocation fragment of the expression language -/

/-- expressions whose value is affine in the base: numbers, addresses (labels, `.`), sums,
    differences, negation, multiplication by a number -/
inductive RExpr
  | num (v : Int)
  | address (offset : Int)
  | add (a b : RExpr)
  | sub (a b : RExpr)
  | neg (a : RExpr)
  | mulNum (a : RExpr) (k : Int)

/-- numeric value when the program is linked at `b` -/
def evalAt (b : Int) : RExpr → Int
  | .num v => v
  | .address off => b + off
  | .add x y => evalAt b x + evalAt b y
  | .sub x y => evalAt b x - evalAt b y
  | .neg x => -(evalAt b x)
  | .mulNum x k => evalAt b x * k

/-- the symbolic value the model computes while the base is unknown -/
def toLin : RExpr → Lin
  | .num v => ofInt v
  | .address off => addr off
  | .add x y => Lin.add (toLin x) (toLin y)
  | .sub x y => Lin.sub (toLin x) (toLin y)
  | .neg x => Lin.neg (toLin x)
  | .mulNum x k => Lin.scale (toLin x) k

/-- **`evalN b e = evalN 0 e + coef e · b`**: the numeric value at any base is the affine form
    computed once -/
theorem evalAt_affine (b : Int) (e : RExpr) : evalAt b e = (toLin e).valueAt b := by
  induction e with
  | num v => simp [evalAt, toLin, valueAt_ofInt]
  | address off => simp [evalAt, toLin, valueAt_addr]
  | add x y ihx ihy => simp [evalAt, toLin, valueAt_add, ihx, ihy]
  | sub x y ihx ihy => simp [evalAt, toLin, valueAt_sub, ihx, ihy]
  | neg x ih => simp [evalAt, toLin, valueAt_neg, ih]
  | mulNum x k ih => simp [evalAt, toLin, valueAt_scale, ih]

/-- moving the base by `Δ` moves the value by `coef · Δ` -/
theorem reloc_value (l : Lin) (b1 b2 : Int) : l.valueAt b2 - l.valueAt b1 = l.coef * (b2 - b1) := by
  simp [valueAt, Int.mul_sub]; omega

/-- a value in which the base cancels is the same at every base -/
theorem cancelled_is_fixed (l : Lin) (h : l.coef = 0) (b1 b2 : Int) : l.valueAt b1 = l.valueAt b2 := by
  simp [valueAt, h]

/-! ### words of the image -/

/-- an absolute address word (immediate, absolute, index or data word holding `address + k`)
    changes by exactly the difference of the bases, modulo 2¹⁶ -/
theorem absolute_word_moves (l : Lin) (h : l.coef = 1) (b1 b2 : Int) :
    (l.valueAt b2) % 65536 = ((l.valueAt b1) % 65536 + (b2 - b1)) % 65536 := by
  simp only [valueAt, h, Int.one_mul]
  omega

/-- a PC-relative displacement to a target inside the program (target and the address of the
    displacement word both move with the base) is identical at every base -/
theorem relative_word_fixed (t r : Lin) (ht : t.coef = 1) (hr : r.coef = 1) (b1 b2 : Int) :
    relWord (t.valueAt b1) (r.valueAt b1) = relWord (t.valueAt b2) (r.valueAt b2) := by
  simp only [relWord, valueAt, ht, hr, Int.one_mul]
  congr 2
  omega

/-- a branch / SOB field to a target inside the program is identical at every base, and so is
    whether it is accepted -/
theorem branch_field_fixed (bits : Nat) (u : Bool) (t r : Lin) (ht : t.coef = 1) (hr : r.coef = 1) (b1 b2 : Int) :
    offsetField bits u (t.valueAt b1 - r.valueAt b1) = offsetField bits u (t.valueAt b2 - r.valueAt b2) := by
  simp only [valueAt, ht, hr, Int.one_mul]
  congr 1
  omega

/-! ### the image -/

/-- where a word of the image comes from -/
inductive WordSrc
  | fixed (w : Nat)            -- opcode word, register/mode field, constant, displacement
  | absolute (offset : Int)    -- an absolute address: base + offset

def renderWord (b : Int) : WordSrc → Nat
  | .fixed w => w
  | .absolute off => ((b + off) % 65536).toNat

def render (b : Int) (ws : List WordSrc) : List Nat := ws.map (renderWord b)

/-- **Relocation law.** The images at two bases have the same length, agree on every word that
    is not an absolute address, and every absolute address word differs by exactly the
    difference of the bases (mod 2¹⁶). -/
theorem reloc_law (b1 b2 : Int) (ws : List WordSrc) :
    (render b1 ws).length = (render b2 ws).length ∧
    ∀ i (hi : i < ws.length),
      match ws[i] with
      | .fixed _ => (render b1 ws)[i]? = (render b2 ws)[i]?
      | .absolute _ => ∃ w1 w2, (render b1 ws)[i]? = some w1 ∧ (render b2 ws)[i]? = some w2 ∧
          (w2 : Int) = ((w1 : Int) + (b2 - b1)) % 65536 := by
  refine ⟨by simp [render], ?_⟩
  intro i hi
  cases hw : ws[i] with
  | fixed w => simp [render, List.getElem?_map, List.getElem?_eq_getElem hi, hw, renderWord]
  | absolute off =>
    refine ⟨renderWord b1 (.absolute off), renderWord b2 (.absolute off), by simp [render, List.getElem?_map, List.getElem?_eq_getElem hi, hw],
      by simp [render, List.getElem?_map, List.getElem?_eq_getElem hi, hw], ?_⟩
    simp only [renderWord]
    have h1 : 0 ≤ (b1 + off) % 65536 := Int.emod_nonneg _ (by omega)
    have h2 : 0 ≤ (b2 + off) % 65536 := Int.emod_nonneg _ (by omega)
    rw [Int.toNat_of_nonneg h1, Int.toNat_of_nonneg h2]
    omega

/-- **Position independence**: code without absolute address words is byte-identical at every base -/
theorem pic_corollary (b1 b2 : Int) (ws : List WordSrc) (h : ∀ w ∈ ws, ∃ v, w = .fixed v) :
    render b1 ws = render b2 ws := by
  unfold render
  apply List.map_congr_left
  intro w hw
  obtain ⟨v, rfl⟩ := h w hw
  rfl

/-! ### exactly the absolute words move; bases that wrap -/

/-- a word holding any affine value (`2*label`, `label + label − K`, …) moves by its
    coefficient times the difference of the bases, modulo 2¹⁶ -/
theorem affine_word_moves (l : Lin) (b1 b2 : Int) :
    (l.valueAt b2) % 65536 = ((l.valueAt b1) % 65536 + l.coef * (b2 - b1)) % 65536 := by
  simp only [valueAt, Int.mul_sub]
  generalize l.coef * b2 = x
  generalize l.coef * b1 = y
  omega

/-- an absolute address word really moves: at two bases that differ modulo 2¹⁶ it holds two
    different words (so the words that `reloc_law` says move are exactly the ones that do) -/
theorem absolute_word_differs (l : Lin) (h : l.coef = 1) (b1 b2 : Int) (hb : b1 % 65536 ≠ b2 % 65536) :
    (l.valueAt b1) % 65536 ≠ (l.valueAt b2) % 65536 := by
  simp only [valueAt, h, Int.one_mul]
  omega

/-- and at bases that agree modulo 2¹⁶ (a base "wrapped through 0o177777") the whole image
    is the same -/
theorem wrapped_base_same_image (b1 b2 : Int) (hb : b1 % 65536 = b2 % 65536) (ws : List WordSrc) :
    render b1 ws = render b2 ws := by
  unfold render
  apply List.map_congr_left
  intro w _
  cases w with
  | fixed v => rfl
  | absolute off =>
    simp only [renderWord]
    congr 1
    omega

example : render 0o1000 [.fixed 1, .absolute 6] = render (0o1000 + 65536) [.fixed 1, .absolute 6] := by decide

/-! ### non-vacuity -/
-- `K + end − start` with start at offset 4 and end at offset 20: the base cancels
example : toLin (.add (.num 0o1000) (.sub (.address 20) (.address 4))) = ⟨0, 0o1000 + 16⟩ := by decide
example : render 0o1000 [.fixed 0o012700, .absolute 6] = [0o012700, 0o1006] ∧
    render 0o177776 [.fixed 0o012700, .absolute 6] = [0o012700, 4] := by decide

end Pdpy11.Props.C09
