import Pdpy11.Props.C16
import Pdpy11.Model.Directive
import Pdpy11.Props.C06
/-
C02 — addresses the program sees equal where its bytes land.

`compile_block` adds to the running address either the size a statement *announces*
before its bytes exist (`SizedDeferred`: instructions, word lists, `.byte/.word/.dword`,
side-effect directives) or the length of the produced chunk.  The property holds iff every
announced size equals the length of the bytes produced (part 1, per statement kind, over the
regenerated `size=` table), because then every address is the link base plus the number of
bytes emitted before (part 2, for any sequence of statements).
-/
namespace Pdpy11.Props.C02
open Pdpy11 Pdpy11.Model Pdpy11.Model.Insn Pdpy11.Model.Directive

/-! ### part 1: announced = actual -/

theorem mapMp_length {α β : Type} (f : α → M β) (l : List α) (st st' : Log) (bs : List β)
    (h : mapM' f l st = ⟨.ok bs, st'⟩) : bs.length = l.length := by
  induction l generalizing st st' bs with
  | nil => simp [mapM'] at h; simp [← h.1]
  | cons a r ih =>
    simp only [mapM', bind_apply] at h
    cases h1 : f a st with
    | mk r1 l1 =>
      cases r1 with
      | error e => simp [h1] at h
      | ok b =>
        simp only [h1] at h
        cases h2 : mapM' f r l1 with
        | mk r2 l2 =>
          cases r2 with
          | error e => simp [h2] at h
          | ok bs' =>
            simp [h2] at h
            rw [← h.1]
            simp [ih l1 l2 bs' h2]

theorem le16_length (w : Nat) : (le16 w).length = 2 := rfl
theorem dword32_length (v : Nat) : (dword32 v).length = 4 := by simp [dword32, le16]

theorem flatMap_const_length {α : Type} (f : α → Bytes) (k : Nat) (hf : ∀ a, (f a).length = k) (l : List α) :
    (l.flatMap f).length = k * l.length := by
  induction l with
  | nil => simp
  | cons a r ih => simp [List.flatMap_cons, hf a, ih, Nat.mul_succ]; omega

/-- the `size=` table of the regenerated metacommands, for 0–64 operands: `.byte` n→max n 1,
    `.word` 2·max n 1, `.dword` 4·max n 1 -/
theorem size_table :
    (List.range 65).all (fun n =>
      (lookupMeta ".byte").bind (announcedSize · n) == some (max n 1) &&
      (lookupMeta ".db").bind (announcedSize · n) == some (max n 1) &&
      (lookupMeta ".word").bind (announcedSize · n) == some (2 * max n 1) &&
      (lookupMeta ".dw").bind (announcedSize · n) == some (2 * max n 1) &&
      (lookupMeta ".dword").bind (announcedSize · n) == some (4 * max n 1)) = true := by decide +kernel

/-- the directives that announce a size at all: the three above and the side-effect directives
    (size 0, no bytes).  In particular `.include`, `.repeat`, `insert_file`, `.ascii`, `.blkb`,
    `.even`, `.align` … announce nothing: the length of their own chunk is used. -/
theorem sized_directives :
    (Gen.metacommands.filter (fun m => m.size != .none)).map (fun m => (m.name, match m.size with | .const n => some n | _ => none)) =
      [(".byte", none), (".word", none), (".dword", none), (".error", some 0), (".list", some 0), (".nlist", some 0),
       (".title", some 0), (".sbttl", some 0), (".ident", some 0), (".page", some 0), ("make_bin", some 0),
       ("make_bk0010_rom", some 0), ("make_raw", some 0), ("make_wav", some 0), ("make_turbo_wav", some 0),
       (".link", some 0), (".extern", some 0), (".end", some 0), (".once", some 0)] := by decide +kernel

/-- `.byte`: whenever it produces bytes at all, they are as many as announced -/
theorem byte_announced (vals : List Int) (bs : Bytes) (l : Log) (h : (byteDir vals).run = ⟨.ok bs, l⟩) :
    bs.length = max vals.length 1 := by
  simp only [byteDir, M.run, bind_apply] at h
  cases hm : mapM' (getAsIntM (some 8) false) vals {} with
  | mk r l1 =>
    cases r with
    | error e => simp [hm] at h
    | ok cooked =>
      have hl := mapMp_length _ _ _ _ _ hm
      simp only [hm] at h
      by_cases he : cooked.isEmpty
      · have : cooked = [] := by simpa using he
        subst this
        simp at h
        rw [← h.1]
        simp at hl
        simp [← hl]
      · simp [he] at h
        rw [← h.1, hl]
        have : vals.length ≠ 0 := by
          intro h0; rw [h0] at hl; simp at hl; subst hl; simp at he
        omega

/-- `.word`: with no error reported (in particular at an even address) the bytes are as many as
    announced -/
theorem word_announced (emit : Int) (vals : List Int) (bs : Bytes) (l : Log)
    (h : (wordDir emit vals).run = ⟨.ok bs, l⟩) (hne : l.errs = []) : bs.length = 2 * max vals.length 1 := by
  simp only [wordDir, M.run, bind_apply] at h
  cases hm : mapM' (getAsIntM (some 16) false) vals {} with
  | mk r l1 =>
    cases r with
    | error e => simp [hm] at h
    | ok cooked =>
      have hl := mapMp_length _ _ _ _ _ hm
      simp only [hm] at h
      by_cases ho : emit % 2 = 1
      · -- odd address: an error is reported, contradicting `hne`
        simp only [oddPrefix, ho, ↓reduceIte, bind_apply, err_apply, pure_apply] at h
        by_cases he : cooked.isEmpty <;> simp [he] at h <;> (rw [← h.2] at hne; simp at hne)
      · simp only [oddPrefix, ho, ↓reduceIte, pure_apply] at h
        by_cases he : cooked.isEmpty
        · have : cooked = [] := by simpa using he
          subst this
          simp at h
          rw [← h.1]
          simp at hl
          simp [← hl]
        · simp [he] at h
          rw [← h.1]
          simp only [List.nil_append, flatMap_const_length le16 2 le16_length, hl]
          have : vals.length ≠ 0 := by
            intro h0; rw [h0] at hl; simp at hl; subst hl; simp at he
          omega

theorem dword_announced (emit : Int) (vals : List Int) (bs : Bytes) (l : Log)
    (h : (dwordDir emit vals).run = ⟨.ok bs, l⟩) (hne : l.errs = []) : bs.length = 4 * max vals.length 1 := by
  simp only [dwordDir, M.run, bind_apply] at h
  cases hm : mapM' (getAsIntM (some 32) false) vals {} with
  | mk r l1 =>
    cases r with
    | error e => simp [hm] at h
    | ok cooked =>
      have hl := mapMp_length _ _ _ _ _ hm
      simp only [hm] at h
      by_cases ho : emit % 2 = 1
      · simp only [oddPrefix, ho, ↓reduceIte, bind_apply, err_apply, pure_apply] at h
        by_cases he : cooked.isEmpty <;> simp [he] at h <;> (rw [← h.2] at hne; simp at hne)
      · simp only [oddPrefix, ho, ↓reduceIte, pure_apply] at h
        by_cases he : cooked.isEmpty
        · have : cooked = [] := by simpa using he
          subst this
          simp at h
          rw [← h.1]
          simp at hl
          simp [← hl]
        · simp [he] at h
          rw [← h.1]
          simp only [List.nil_append, flatMap_const_length dword32 4 dword32_length, hl]
          have : vals.length ≠ 0 := by
            intro h0; rw [h0] at hl; simp at hl; subst hl; simp at he
          omega

/-- implicit word list: `2·n` bytes when no error is reported -/
theorem word_list_announced (emit : Int) (vals : List Int) (bs : Bytes) (l : Log)
    (h : (wordList emit vals).run = ⟨.ok bs, l⟩) (hne : l.errs = []) : bs.length = 2 * vals.length := by
  simp only [wordList, M.run, bind_apply] at h
  cases hm : mapM' (getAsIntM (some 16) false) vals {} with
  | mk r l1 =>
    cases r with
    | error e => simp [hm] at h
    | ok cooked =>
      have hl := mapMp_length _ _ _ _ _ hm
      simp only [hm] at h
      by_cases ho : emit % 2 = 1
      · simp only [oddPrefix, ho, ↓reduceIte, bind_apply, err_apply, pure_apply] at h
        simp at h
        rw [← h.2] at hne; simp at hne
      · simp only [oddPrefix, ho, ↓reduceIte, pure_apply] at h
        simp at h
        rw [← h.1]
        simp only [flatMap_const_length le16 2 le16_length, hl]

/-! ### part 2: the running address -/

/-- addresses handed out by `compile_block`: start, then plus each announced size -/
def addrs (base : Int) : List Nat → List Int
  | [] => []
  | s :: r => base :: addrs (base + s) r

def total (sizes : List Nat) : Nat := sizes.foldl (· + ·) 0

theorem total_cons (s : Nat) (r : List Nat) : total (s :: r) = s + total r := by
  unfold total
  simp only [List.foldl_cons]
  have key : ∀ (l : List Nat) (a : Nat), l.foldl (· + ·) a = a + l.foldl (· + ·) 0 := by
    intro l
    induction l with
    | nil => simp
    | cons x xs ih => intro a; simp only [List.foldl_cons]; rw [ih (a + x), ih (0 + x)]; omega
  rw [key r (0 + s)]; omega

/-- **Layout invariant.** If every statement's announced size is the length of the bytes it
    produced, then for every statement `k`: the address it was given is the base plus the number
    of bytes actually in the image before it, and the image at that address holds exactly its
    bytes; and the image length is the sum of all sizes. -/
theorem layout_invariant (base : Int) (chunks : List Bytes) (sizes : List Nat)
    (hsz : sizes = chunks.map List.length) :
    (chunks.flatten).length = total sizes ∧
    ∀ k (hk : k < chunks.length),
      (addrs base sizes)[k]? = some (base + ((chunks.take k).flatten.length : Nat)) ∧
      ((chunks.flatten).drop ((chunks.take k).flatten.length)).take (chunks[k].length) = chunks[k] := by
  subst hsz
  induction chunks generalizing base with
  | nil => simp [total]
  | cons c r ih =>
    obtain ⟨ih1, ih2⟩ := ih (base + c.length)
    refine ⟨by simp [total_cons, ih1], ?_⟩
    intro k hk
    cases k with
    | zero => simp [addrs]
    | succ k =>
      have hk' : k < r.length := by simpa using hk
      obtain ⟨a1, a2⟩ := ih2 k hk'
      refine ⟨?_, ?_⟩
      · simp only [List.map_cons, addrs, List.getElem?_cons_succ, a1, List.take_succ_cons, List.flatten_cons, List.length_append]
        congr 1; omega
      · simp only [List.take_succ_cons, List.flatten_cons, List.length_append, List.getElem_cons_succ]
        rw [List.drop_append]
        simp only [List.drop_eq_nil_of_le (Nat.le_add_right _ _), List.nil_append]
        have : c.length + (List.take k r).flatten.length - c.length = (List.take k r).flatten.length := by omega
        rw [this]
        exact a2

/-- a label (which emits nothing) between statements `k−1` and `k` gets the running address,
    hence the address of the byte that follows it -/
theorem label_is_next_address (base : Int) (sizes : List Nat) (k : Nat) (hk : k < sizes.length) :
    (addrs base sizes)[k]? = some (base + (total (sizes.take k) : Nat)) := by
  induction sizes generalizing base k with
  | nil => simp at hk
  | cons s r ih =>
    cases k with
    | zero => simp [addrs, total]
    | succ k =>
      have hk' : k < r.length := by simpa using hk
      simp only [addrs, List.getElem?_cons_succ, ih (base + s) k hk', List.take_succ_cons, total_cons]
      congr 1; omega

/-! ### non-vacuity -/
example : (wordDir 512 [1, 2]).run = ⟨.ok [1, 0, 2, 0], {}⟩ ∧ ({} : Log).errs = [] := ⟨rfl, rfl⟩
example : addrs 512 [2, 4, 0, 1] = [512, 514, 518, 518] := by decide

/-! ## second part: the block-layout model -/
open Pdpy11.Model.Layout Pdpy11.Props.C16

/-- In any block, the statement after `pre` is compiled at `start + (bytes emitted by pre)`, its
bytes follow those of `pre` immediately, and the rest of the block starts right after them: the
address a statement sees (its `.`) is where its bytes lie. -/
theorem statement_sees_its_address (pre post : List Stmt) (s : Stmt) (a : Nat) (hpre : NoStop pre)
    (hs : (s (a + (emitBlock pre a).length)).2 = false) :
    emitBlock (pre ++ s :: post) a =
      emitBlock pre a ++ (s (a + (emitBlock pre a).length)).1 ++
        emitBlock post (a + (emitBlock pre a).length + (s (a + (emitBlock pre a).length)).1.length) := by
  rw [emitBlock_append _ _ hpre, emitBlock_cons_noStop _ _ _ hs]
  simp [List.append_assoc]

/-- the sizes of the statements of a block, each at its own address -/
def sizesFrom : List Stmt → Nat → List Nat
  | [], _ => []
  | s :: rest, a => (s a).1.length :: sizesFrom rest (a + (s a).1.length)

/-- the image of a block that does not stop early is as long as the sizes of its statements, each
measured at the address it was given -/
theorem block_length (stmts : List Stmt) (a : Nat) (h : NoStop stmts) :
    (emitBlock stmts a).length = (sizesFrom stmts a).sum := by
  induction stmts generalizing a with
  | nil => simp [emitBlock, sizesFrom]
  | cons s rest ih =>
    have hs : (s a).2 = false := h s (by simp) a
    rw [emitBlock_cons_noStop _ _ _ hs, sizesFrom]
    simp [ih (a + (s a).1.length) (fun t ht => h t (by simp [ht]))]

/-- a label placed after `pre` (a statement that emits nothing) marks the address of the next byte:
`start + length of what `pre` emitted`, whatever follows -/
theorem label_marks_next_byte (pre post : List Stmt) (a : Nat) (hpre : NoStop pre) :
    emitBlock (pre ++ (fun _ => ([], false)) :: post) a = emitBlock pre a ++ emitBlock post (a + (emitBlock pre a).length) := by
  rw [statement_sees_its_address pre post (fun _ => ([], false)) a hpre rfl]
  simp


end Pdpy11.Props.C02
