import Pdpy11.Model.Rad50
import Pdpy11.Spec.Rad50
/-
C15 — Radix-50 packing.  Theorems about the model of `.rad50` / `^R` over the
table regenerated from /repo (`Gen.rad50Table`).
-/
namespace Pdpy11.Props.C15
open Pdpy11 Pdpy11.Model Pdpy11.Model.Rad50

/-! ### the table -/

/-- the implementation's table is the standard RADIX-50 alphabet -/
theorem table_eq_spec : Gen.rad50Table = Spec.Rad50.alphabet := by decide

theorem table_40_distinct : Gen.rad50Table.length = 40 ∧ Gen.rad50Table.Nodup := by decide

/-! ### one word -/

theorem pack_lt_64000 {a b c : Nat} (ha : a < 40) (hb : b < 40) (hc : c < 40) :
    pack a b c < 64000 := by unfold pack; omega

theorem pack_formula (a b c : Nat) : pack a b c = (a * 40 + b) * 40 + c := by
  unfold pack; omega

/-- the standard unpacking algorithm inverts the packing, for all 64000 triples -/
theorem unpack_pack {a b c : Nat} (ha : a < 40) (hb : b < 40) (hc : c < 40) :
    Spec.Rad50.unpack (pack a b c) = (a, b, c) := by
  unfold Spec.Rad50.unpack pack
  refine Prod.ext ?_ (Prod.ext ?_ ?_) <;> simp <;> omega

/-! ### helper lemmas -/

theorem idxOf_lt {t : List Nat} {c i : Nat} (h : idxOf t c = some i) : i < t.length := by
  induction t generalizing i with
  | nil => simp [idxOf] at h
  | cons x xs ih =>
    unfold idxOf at h
    split at h
    · cases h; simp
    · cases hx : idxOf xs c with
      | none => simp [hx] at h
      | some j =>
        simp [hx] at h; subst h
        have := ih hx
        simp; omega

theorem idxOf_getD {t : List Nat} {c i d : Nat} (h : idxOf t c = some i) : t.getD i d = c := by
  induction t generalizing i with
  | nil => simp [idxOf] at h
  | cons x xs ih =>
    unfold idxOf at h
    split at h
    · rename_i hx; cases h; simp [hx]
    · cases hx : idxOf xs c with
      | none => simp [hx] at h
      | some j =>
        simp [hx] at h; subst h
        simpa using ih hx

theorem unpackWords_group3 (l : List Nat) (n : Nat) (hn : l.length = 3 * n)
    (hl : ∀ x ∈ l, x < 40) : Spec.Rad50.unpackWords (group3 l) = l := by
  induction n generalizing l with
  | zero =>
    have : l = [] := List.length_eq_zero_iff.mp (by omega)
    subst this; simp [group3, Spec.Rad50.unpackWords]
  | succ n ih =>
    match l, hn, hl with
    | a :: b :: c :: rest, hn, hl =>
      have ha := hl a (by simp)
      have hb := hl b (by simp)
      have hc := hl c (by simp)
      have hr : ∀ x ∈ rest, x < 40 := fun x hx => hl x (by simp [hx])
      have hlen : rest.length = 3 * n := by simp at hn; omega
      simp only [group3, Spec.Rad50.unpackWords, unpack_pack ha hb hc, ih rest hlen hr]
    | [], hn, _ => simp at hn <;> omega
    | [_], hn, _ => simp at hn <;> omega
    | [_, _], hn, _ => simp at hn <;> omega

theorem pad3_length (l : List Nat) : ∃ n, (pad3 l).length = 3 * n := by
  refine ⟨(l.length + 2) / 3, ?_⟩
  simp [pad3]; omega

/-- space-padding to a multiple of three, as the property states it -/
def padSpaces (l : List Nat) : List Nat := l ++ List.replicate ((3 - l.length % 3) % 3) 32

/-! ### the directive on strings -/

/-- all characters of the string chunks -/
def chars : List Chunk → List Nat
  | [] => []
  | .str s :: r => s ++ chars r
  | .code _ :: r => chars r

def AllStr : List Chunk → Prop
  | [] => True
  | .str _ :: r => AllStr r
  | .code _ :: _ => False

theorem codes_of_strings (table : List Nat) (cs : List Chunk) (h : AllStr cs) :
    (cs.map (chunkCodes table)).flatMap (·.1) = (chars cs).map (fun c => (charCode table c).getD 0) := by
  induction cs with
  | nil => simp [chars]
  | cons x r ih =>
    cases x with
    | str s => simp [chunkCodes, chars, ih h]
    | code n => exact absurd h (by simp [AllStr])

theorem errs_of_strings (table : List Nat) (cs : List Chunk) (h : AllStr cs)
    (hc : ∀ c ∈ chars cs, (charCode table c).isSome) :
    (cs.map (chunkCodes table)).flatMap (·.2) = [] := by
  induction cs with
  | nil => simp
  | cons x r ih =>
    cases x with
    | str s =>
      have h1 : ∀ c ∈ s, (charCode table c).isSome := fun c hcs => hc c (by simp [chars, hcs])
      have h2 : ∀ c ∈ chars r, (charCode table c).isSome := fun c hcs => hc c (by simp [chars, hcs])
      simp [chunkCodes, ih h h2]
      intro a ha hn
      have := h1 a ha
      simp [hn] at this
    | code n => exact absurd h (by simp [AllStr])

/-- **Round trip.** For every list of string chunks whose characters all belong to the
alphabet (in either case), the `.rad50` directive reports nothing and unpacking the
emitted words by the standard algorithm returns the upper-cased, space-padded input. -/
theorem rad50_string (cs : List Chunk) (h : AllStr cs)
    (hc : ∀ c ∈ chars cs, (charCode Gen.rad50Table c).isSome) :
    (directive Gen.rad50Table cs).2 = [] ∧
    Spec.Rad50.decodeWords (directive Gen.rad50Table cs).1 = padSpaces ((chars cs).map upperPy) := by
  refine ⟨errs_of_strings _ cs h hc, ?_⟩
  simp only [directive, codes_of_strings _ cs h, Spec.Rad50.decodeWords]
  obtain ⟨n, hn⟩ := pad3_length ((chars cs).map (fun c => (charCode Gen.rad50Table c).getD 0))
  have hlt : ∀ x ∈ pad3 ((chars cs).map (fun c => (charCode Gen.rad50Table c).getD 0)), x < 40 := by
    intro x hx
    simp only [pad3, List.mem_append, List.mem_map, List.mem_replicate] at hx
    rcases hx with ⟨c, hcm, rfl⟩ | ⟨_, rfl⟩
    · have := hc c hcm
      cases hcc : charCode Gen.rad50Table c with
      | none => simp [hcc] at this
      | some i =>
        have := idxOf_lt hcc
        simp [table_40_distinct.1] at this
        simpa using this
    · omega
  rw [unpackWords_group3 _ n hn hlt]
  simp only [pad3, padSpaces, List.map_append, List.map_map, List.map_replicate, List.length_map]
  congr 1
  · apply List.map_congr_left
    intro c hcm
    have := hc c hcm
    cases hcc : charCode Gen.rad50Table c with
    | none => simp [hcc] at this
    | some i =>
      simp only [Function.comp, hcc, Option.getD_some, Spec.Rad50.charOf, ← table_eq_spec]
      exact idxOf_getD hcc

/-! ### errors -/

/-- a character outside the alphabet is reported -/
theorem bad_char_reports (table : List Nat) (pre post : List Chunk) (s : Str) (c : Nat)
    (hc : c ∈ s) (hbad : charCode table c = none) :
    (directive table (pre ++ .str s :: post)).2 ≠ [] := by
  simp only [directive, List.map_append, List.map_cons, List.flatMap_append, List.flatMap_cons, chunkCodes]
  intro h
  have h' := (List.append_eq_nil_iff.mp (List.append_eq_nil_iff.mp h).2).1
  have := List.filterMap_eq_nil_iff.mp h' c hc
  simp [hbad] at this

/-- `<n>` with `n ≥ 40` (or negative) is reported -/
theorem code_ge_40_reports (table : List Nat) (pre post : List Chunk) (n : Int)
    (hn : n ≥ 40 ∨ n < 0) :
    (directive table (pre ++ .code n :: post)).2 ≠ [] := by
  simp only [directive, List.map_append, List.map_cons, List.flatMap_append, List.flatMap_cons, chunkCodes]
  rcases hn with hn | hn
  · have : ¬ n < 0 := by omega
    simp [this, hn]
  · simp [hn]

/-- `<n>` with `0 ≤ n < 40` contributes exactly code `n` -/
theorem code_lt_40_value (table : List Nat) (n : Nat) (hn : n < 40) :
    chunkCodes table (.code n) = ([n], []) := by
  have h1 : ¬ ((n : Int) < 0) := by omega
  have h2 : ¬ ((n : Int) ≥ 40) := by omega
  simp [chunkCodes, h1, h2]

/-! ### the `^R` literal -/

/-- a `^R` literal of 1–3 alphabet characters has the value of the first (only) word
that `.rad50` emits for the same characters -/
theorem caret_r_eq_rad50 (s : Str) (h1 : 1 ≤ s.length) (h3 : s.length ≤ 3)
    (hc : ∀ c ∈ s, (charCode Gen.rad50Table c).isSome) :
    (caretR Gen.rad50Table s).map (fun w => [w]) = some (directive Gen.rad50Table [.str s]).1 := by
  have hget : ∀ c ∈ s, ∃ i, idxOf Gen.rad50Table (upperPy c) = some i := by
    intro c hcs
    have := hc c hcs
    cases hcc : charCode Gen.rad50Table c with
    | none => simp [hcc] at this
    | some i => exact ⟨i, hcc⟩
  have hsp : idxOf Gen.rad50Table 32 = some 0 := by decide
  match s, h1, h3, hget with
  | [a], _, _, hget =>
    obtain ⟨i, hi⟩ := hget a (by simp)
    simp [caretR, packToInt, directive, chunkCodes, charCode, hi, hsp, pad3, group3, pack]
  | [a, b], _, _, hget =>
    obtain ⟨i, hi⟩ := hget a (by simp)
    obtain ⟨j, hj⟩ := hget b (by simp)
    simp [caretR, packToInt, directive, chunkCodes, charCode, hi, hj, hsp, pad3, group3, pack]
  | [a, b, c], _, _, hget =>
    obtain ⟨i, hi⟩ := hget a (by simp)
    obtain ⟨j, hj⟩ := hget b (by simp)
    obtain ⟨k, hk⟩ := hget c (by simp)
    simp [caretR, packToInt, directive, chunkCodes, charCode, hi, hj, hk, pad3, group3, pack]
  | [], h1, _, _ => simp at h1
  | _ :: _ :: _ :: _ :: _, _, h3, _ => simp at h3 <;> omega

/-! ### non-vacuity -/

-- "Ab$" and "9" : two string chunks, all in the alphabet
example : AllStr [.str [65, 98, 36], .str [57]] ∧
    (∀ c ∈ chars [.str [65, 98, 36], .str [57]], (charCode Gen.rad50Table c).isSome) :=
  ⟨by simp [AllStr], by decide⟩
example : (directive Gen.rad50Table [.str [65, 98, 36], .str [57]]).1 = [1 * 1600 + 2 * 40 + 27, 39 * 1600] := by decide
example : charCode Gen.rad50Table 33 = none := by decide   -- '!' is outside the alphabet
example : caretR Gen.rad50Table [97, 98] = some (1 * 1600 + 2 * 40) := by decide

end Pdpy11.Props.C15
