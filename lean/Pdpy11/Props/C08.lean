import Pdpy11.Props.C01
import Pdpy11.Model.Insn
import Pdpy11.Model.Directive
import Pdpy11.Model.Defs
import Pdpy11.Model.State
import Pdpy11.Model.Await
/-
C08  Every input ends in a result or a reported error.

What a theorem can carry here: the value-level core is made of total functions (Lean accepts
no other), so on every input they terminate; and every way they fail is *loud*: an abort is
always preceded by an error report, and no path of the modelled operand classes reaches the
`crash` outcome (which stands for an internal exception).  `Loud` is proved compositionally
(pure, report, bind, list traversal) and then for every primitive the instruction encoder and
the data directives are made of.  The lazy evaluator `Defs.eval` reports every undefined name,
and a cycle ends as `none` (out of fuel), never as a value.

What it cannot carry: the parser and the whole-program elaboration are `partial def`s (their
termination is not proved), and Python-level failures (recursion depth, integer-to-string
limits, I/O) have no counterpart in the model — for those the exploration over grammar G with
the watchdog is what decides.
-/
namespace Pdpy11.Props.C08
open Pdpy11.Model Pdpy11.Model.Insn Pdpy11.Model.Directive

/-- a computation that never fails silently and never ends in an internal error: on success
the error log only grows, an abort comes with at least one new error report, and the `crash`
outcome is unreachable -/
def Loud {α : Type} (m : M α) : Prop :=
  ∀ l : Log, match (m l).r with
    | .ok _ => l.errs.length ≤ (m l).log.errs.length
    | .error .abort => l.errs.length < (m l).log.errs.length
    | .error (.crash _) => False

theorem loud_pure {α : Type} (a : α) : Loud (pure a : M α) := by
  intro l; simp

theorem loud_err (id : String) : Loud (err id) := by
  intro l; simp

theorem loud_warn (id : String) : Loud (warn id) := by
  intro l; simp

theorem loud_bind {α β : Type} (m : M α) (f : α → M β) (hm : Loud m) (hf : ∀ a, Loud (f a)) : Loud (m >>= f) := by
  intro l
  have h1 := hm l
  simp only [bind_apply]
  cases hr : m l with
  | mk r l' =>
    rw [hr] at h1
    cases r with
    | ok a =>
      simp only [] at h1 ⊢
      have h2 := hf a l'
      cases hr2 : f a l' with
      | mk r2 l'' =>
        rw [hr2] at h2
        cases r2 with
        | ok b => simp only [] at h2 ⊢; omega
        | error e =>
          cases e with
          | abort => simp only [] at h2 ⊢; omega
          | crash w => simp only [] at h2
    | error e =>
      cases e with
      | abort => simpa using h1
      | crash w => simp only [] at h1

/-- report, then abort: the only way the model aborts -/
theorem loud_err_abort {α : Type} (id : String) : Loud (do err id; (abort : M α)) := by
  intro l; simp

theorem loud_mapM {α β : Type} (f : α → M β) (hf : ∀ a, Loud (f a)) (xs : List α) : Loud (mapM' f xs) := by
  induction xs with
  | nil => exact loud_pure _
  | cons a as ih =>
    unfold mapM'
    exact loud_bind _ _ (hf a) (fun b => loud_bind _ _ ih (fun bs => loud_pure _))

theorem loud_getAsIntM (b : Option Nat) (u : Bool) (v : Int) : Loud (getAsIntM b u v) := by
  unfold getAsIntM
  cases getAsInt b u v with
  | ok x => exact loud_pure _
  | error e => exact loud_err_abort e

theorem loud_getAsIntDefault (b : Option Nat) (u : Bool) (d : Nat) (v : Int) : Loud (getAsIntDefault b u d v) := by
  unfold getAsIntDefault
  cases getAsInt b u v with
  | ok x => exact loud_pure _
  | error e => exact loud_bind _ _ (loud_err e) (fun _ => loud_pure _)

theorem loud_regNum (r : RegRef) : Loud (regNum r) := by
  cases r with
  | named n => exact loud_pure _
  | pct v => exact loud_getAsIntM _ _ _

/-- every CPU operand form: the register-mode field never fails silently -/
theorem loud_encodeRM (op : Operand) (rel : Int) (h : ∀ n, op ≠ .acc n) : Loud (encodeRM op rel) := by
  cases op with
  | reg r => exact loud_bind _ _ (loud_regNum r) (fun _ => loud_pure _)
  | regDef r legacy =>
    refine loud_bind _ _ (loud_regNum r) (fun n => ?_)
    cases legacy
    · exact loud_pure _
    · exact loud_bind _ _ (loud_warn _) (fun _ => loud_pure _)
  | autoInc r => exact loud_bind _ _ (loud_regNum r) (fun _ => loud_pure _)
  | autoIncDef r => exact loud_bind _ _ (loud_regNum r) (fun _ => loud_pure _)
  | autoDec r => exact loud_bind _ _ (loud_regNum r) (fun _ => loud_pure _)
  | autoDecDef r => exact loud_bind _ _ (loud_regNum r) (fun _ => loud_pure _)
  | index x r => exact loud_bind _ _ (loud_regNum r) (fun _ => loud_bind _ _ (loud_getAsIntM _ _ _) (fun _ => loud_pure _))
  | indexDef x r => exact loud_bind _ _ (loud_regNum r) (fun _ => loud_bind _ _ (loud_getAsIntM _ _ _) (fun _ => loud_pure _))
  | indexDef0 r => exact loud_bind _ _ (loud_regNum r) (fun _ => loud_bind _ _ (loud_warn _) (fun _ => loud_pure _))
  | imm v => exact loud_bind _ _ (loud_getAsIntM _ _ _) (fun _ => loud_pure _)
  | abs v => exact loud_bind _ _ (loud_getAsIntM _ _ _) (fun _ => loud_pure _)
  | expr t => exact loud_pure _
  | exprDef t => exact loud_pure _
  | acc n => exact absurd rfl (h n)

theorem loud_encodeReg (op : Operand) : Loud (encodeReg op) := by
  cases op <;> first | exact loud_regNum _ | exact loud_err_abort _

theorem loud_encodeAcc (w : Nat) (op : Operand) : Loud (encodeAcc w op) := by
  cases op with
  | acc n =>
    unfold encodeAcc
    by_cases h : n ≥ 2 ^ w
    · simp only [h, if_true]; exact loud_err_abort _
    · simp only [h, if_false]; exact loud_pure _
  | _ => exact loud_err_abort _

theorem loud_forErr (es : List String) : Loud (forIn es PUnit.unit (fun e _ => do err e; pure (ForInStep.yield PUnit.unit)) : M PUnit) := by
  induction es with
  | nil => exact loud_pure _
  | cons e es ih =>
    simp only [List.forIn_cons]
    refine loud_bind _ _ (loud_bind _ _ (loud_err e) (fun _ => loud_pure _)) (fun s => ?_)
    cases s with
    | done b => exact loud_pure _
    | yield b => exact ih

/-! ### data directives -/

theorem loud_oddPrefix (emit : Int) : Loud (oddPrefix emit) := by
  unfold oddPrefix
  by_cases h : emit % 2 = 1
  · simp only [h, if_true]; exact loud_bind _ _ (loud_err _) (fun _ => loud_pure _)
  · simp only [h, if_false]; exact loud_pure _

theorem loud_byteDir (vals : List Int) : Loud (byteDir vals) := by
  unfold byteDir
  refine loud_bind _ _ (loud_mapM _ (fun v => loud_getAsIntM _ _ v) vals) (fun cooked => ?_)
  by_cases h : cooked.isEmpty
  · simp only [h, if_true]; exact loud_bind _ _ (loud_warn _) (fun _ => loud_pure _)
  · simp only [h]; exact loud_pure _

theorem loud_wordDir (emit : Int) (vals : List Int) : Loud (wordDir emit vals) := by
  unfold wordDir
  refine loud_bind _ _ (loud_mapM _ (fun v => loud_getAsIntM _ _ v) vals) (fun cooked => ?_)
  refine loud_bind _ _ (loud_oddPrefix emit) (fun pre => ?_)
  by_cases h : cooked.isEmpty
  · simp only [h, if_true]; exact loud_bind _ _ (loud_warn _) (fun _ => loud_pure _)
  · simp only [h]; exact loud_pure _

theorem loud_wordList (emit : Int) (vals : List Int) : Loud (wordList emit vals) := by
  unfold wordList
  exact loud_bind _ _ (loud_mapM _ (fun v => loud_getAsIntM _ _ v) vals) (fun _ => loud_bind _ _ (loud_oddPrefix emit) (fun _ => loud_pure _))

theorem loud_blkb (n : Int) : Loud (blkb n) := loud_bind _ _ (loud_getAsIntM _ _ _) (fun _ => loud_pure _)
theorem loud_blkw (n : Int) : Loud (blkw n) := loud_bind _ _ (loud_getAsIntM _ _ _) (fun _ => loud_pure _)

theorem loud_align (emit n : Int) : Loud (align emit n) := by
  unfold align
  refine loud_bind _ _ (loud_getAsIntM _ _ _) (fun c => ?_)
  by_cases h : c = 0
  · simp only [h, if_true]; exact loud_bind _ _ (loud_err _) (fun _ => loud_pure _)
  · simp only [h, if_false]; exact loud_pure _

theorem loud_asciiImpl (cs : Charset) (chunks : List StrChunk) : Loud (asciiImpl cs chunks) := by
  induction chunks with
  | nil => exact loud_pure _
  | cons c rest ih =>
    cases c with
    | angle v =>
      unfold asciiImpl
      exact loud_bind _ _ (loud_getAsIntDefault _ _ _ _) (fun _ => loud_bind _ _ ih (fun _ => loud_pure _))
    | str s =>
      unfold asciiImpl
      cases encodeStr cs s with
      | some bs =>
        simp only []
        exact loud_bind _ _ (loud_pure _) (fun _ => loud_bind _ _ ih (fun _ => loud_pure _))
      | none =>
        simp only []
        exact loud_bind _ _ (loud_err _) (fun _ => loud_bind _ _ (loud_pure _) (fun _ => loud_bind _ _ ih (fun _ => loud_pure _)))

/-! ### the lazy evaluator: undefined names are reported, cycles never yield a value -/

open Pdpy11.Model.Defs in
theorem undefined_reports (t : Table) (f : Nat) (n : String) (h : Scope.lookup t n = none) :
    eval t (f + 1) (.ref n) = some ⟨0, ["undefined-symbol"]⟩ := by
  simp [eval, h]

open Pdpy11.Model.Defs in
/-- a definition that refers to itself never gets a value, whatever the fuel -/
theorem self_reference_no_value (n : String) (f : Nat) : eval [(n, .ref n)] f (.ref n) = none := by
  induction f with
  | zero => rfl
  | succ f ih => simp [eval, Scope.lookup, List.find?, ih]

open Pdpy11.Model.Defs in
/-- … nor does `a = a + k` -/
theorem self_increment_no_value (n : String) (k : Int) (f : Nat) :
    eval [(n, .bin "add" (.ref n) (.lit k))] f (.ref n) = none ∧ eval [(n, .bin "add" (.ref n) (.lit k))] f (.bin "add" (.ref n) (.lit k)) = none := by
  induction f with
  | zero => exact ⟨rfl, rfl⟩
  | succ f ih =>
    constructor
    · simp [eval, Scope.lookup, List.find?, ih.2]
    · simp only [eval, ih.1]

/-! ### the report machinery: an error report always turns the run into a failure -/

open Pdpy11.Model.State in
/-- inside a handler, a computation that reports an error and then returns normally leaves the
`with` block as `UnrecoverableError`: success with an error report is impossible -/
theorem error_report_fails (h : Nat) (st : St) (log : List (Nat × Sev)) :
    (run (.handler h (.report .error)) st log).1 = some .unrecoverable := by
  simp [run]

open Pdpy11.Model.State in
theorem critical_report_fails (h : Nat) (st : St) (log : List (Nat × Sev)) :
    (run (.handler h (.report .critical)) st log).1 = some .unrecoverable := by
  simp [run]

open Pdpy11.Model.State in
/-- … while warnings alone do not fail it -/
theorem warning_report_passes (h : Nat) (st : St) (log : List (Nat × Sev)) :
    (run (.handler h (.report .warning)) st log).1 = none := by
  simp [run]

/-! ### not vacuous -/

example : (byteDir [1, 256]).run.r = .error .abort ∧ (byteDir [1, 256]).run.log.errs = ["value-out-of-bounds"] := ⟨rfl, rfl⟩
example : (encodeRM (.index 70000 (.named 1)) 0).run.r = .error .abort := rfl

/-! ## second part: the whole instruction encoder is loud -/
open Pdpy11.Gen

/-- bind with a postcondition on the intermediate result -/
theorem loud_bind_post {α β : Type} (m : M α) (f : α → M β) (P : α → Prop) (hm : Loud m)
    (hP : ∀ l a l', m l = ⟨.ok a, l'⟩ → P a) (hf : ∀ a, P a → Loud (f a)) : Loud (m >>= f) := by
  intro l
  have h1 := hm l
  simp only [bind_apply]
  cases hr : m l with
  | mk r l' =>
    rw [hr] at h1
    cases r with
    | ok a =>
      simp only [] at h1 ⊢
      have h2 := hf a (hP l a l' hr) l'
      cases hr2 : f a l' with
      | mk r2 l'' =>
        rw [hr2] at h2
        cases r2 with
        | ok b => simp only [] at h2 ⊢; omega
        | error e =>
          cases e with
          | abort => simp only [] at h2 ⊢; omega
          | crash w => simp only [] at h2
    | error e =>
      cases e with
      | abort => simpa using h1
      | crash w => simp only [] at h1

/-- the operand is of a class the stub's encoder handles (what `Classify` delivers) -/
def Compatible (s : StubG) (op : Operand) : Prop :=
  match s.cls with
  | .register => True
  | .registerMode => ∀ n, op ≠ .acc n
  | .fp11rm => True
  | .fp11acc => True
  | .offset => ∃ t, op = .expr t
  | .immediate => (∃ v, op = .imm v) ∨ (∃ v, op = .expr v)

theorem loud_encodeFP11RM (op : Operand) (rel : Int) : Loud (encodeFP11RM op rel) := by
  cases op with
  | acc n => exact loud_pure _
  | reg r =>
    refine loud_bind _ _ (loud_regNum r) (fun n => ?_)
    by_cases h : n < 6
    · simp only [h, if_true]; exact loud_bind _ _ (loud_warn _) (fun _ => loud_pure _)
    · simp only [h, if_false]; exact loud_bind _ _ (loud_err _) (fun _ => loud_pure _)
  | regDef r legacy => exact loud_encodeRM _ rel (fun n => by simp)
  | autoInc r => exact loud_encodeRM _ rel (fun n => by simp)
  | autoIncDef r => exact loud_encodeRM _ rel (fun n => by simp)
  | autoDec r => exact loud_encodeRM _ rel (fun n => by simp)
  | autoDecDef r => exact loud_encodeRM _ rel (fun n => by simp)
  | index x r => exact loud_encodeRM _ rel (fun n => by simp)
  | indexDef x r => exact loud_encodeRM _ rel (fun n => by simp)
  | indexDef0 r => exact loud_encodeRM _ rel (fun n => by simp)
  | imm v => exact loud_encodeRM _ rel (fun n => by simp)
  | abs v => exact loud_encodeRM _ rel (fun n => by simp)
  | expr t => exact loud_pure _
  | exprDef t => exact loud_pure _

theorem loud_encodeStub (s : StubG) (op : Operand) (rel : Int) (h : Compatible s op) : Loud (encodeStub s op rel) := by
  unfold encodeStub
  unfold Compatible at h
  cases hc : s.cls with
  | register => simp only []; exact loud_bind _ _ (loud_encodeReg op) (fun _ => loud_pure _)
  | registerMode =>
    simp only [hc] at h
    simp only []
    exact loud_bind _ _ (loud_encodeRM op rel h) (fun _ => loud_pure _)
  | fp11rm => simp only []; exact loud_bind _ _ (loud_encodeFP11RM op rel) (fun _ => loud_pure _)
  | fp11acc => simp only []; exact loud_bind _ _ (loud_encodeAcc _ op) (fun _ => loud_pure _)
  | offset =>
    simp only [hc] at h
    obtain ⟨t, rfl⟩ := h
    simp only [encodeOffset]
    refine loud_bind _ _ ?_ (fun _ => loud_pure _)
    exact loud_bind _ _ (loud_forErr _) (fun _ => loud_pure _)
  | immediate =>
    simp only [hc] at h
    simp only []
    refine loud_bind _ _ ?_ (fun _ => loud_pure _)
    have hjp : ∀ v : Int, Loud (match immField s.bits.length s.unsigned v with
        | (f, es) => (do
          forIn es PUnit.unit (fun e _ => do err e; pure (ForInStep.yield PUnit.unit))
          pure f : M Int)) := by
      intro v
      cases immField s.bits.length s.unsigned v with
      | mk f es => exact loud_bind _ _ (loud_forErr es) (fun _ => loud_pure f)
    rcases h with ⟨v, rfl⟩ | ⟨v, rfl⟩
    · unfold encodeImm
      simp only []
      exact loud_bind _ _ (loud_warn _) (fun _ => loud_bind _ _ (loud_pure _) (fun v' => hjp v'))
    · unfold encodeImm
      simp only []
      exact loud_bind _ _ (loud_pure _) (fun v' => hjp v')

theorem loud_encodeOperands (emit : Int) (pairs : List (StubG × Operand)) (hc : ∀ x ∈ pairs, Compatible x.1 x.2)
    (repl : List (StubG × Int)) (ext : List Nat) : Loud (encodeOperands emit pairs repl ext) := by
  induction pairs generalizing repl ext with
  | nil => exact loud_pure _
  | cons x rest ih =>
    obtain ⟨s, op⟩ := x
    unfold encodeOperands
    refine loud_bind _ _ (loud_encodeStub s op _ (hc (s, op) (by simp))) (fun ve => ?_)
    obtain ⟨v, e⟩ := ve
    exact ih (fun y hy => hc y (by simp [hy])) _ _

/-- the replacements handed to `get_opcode` are the stubs in order, each with some value -/
theorem encodeOperands_shape (emit : Int) (pairs : List (StubG × Operand)) (repl : List (StubG × Int)) (ext : List Nat)
    (l l' : Log) (r : List (StubG × Int)) (x : List Nat) (h : encodeOperands emit pairs repl ext l = ⟨.ok (r, x), l'⟩) :
    ∃ vs : List Int, vs.length = pairs.length ∧ r = repl ++ (pairs.map Prod.fst).zip vs := by
  induction pairs generalizing repl ext l with
  | nil =>
    simp only [encodeOperands, pure_apply] at h
    injection h with h1 _
    injection h1 with h1
    injection h1 with hr _
    exact ⟨[], rfl, by simp [hr]⟩
  | cons y rest ih =>
    obtain ⟨s, op⟩ := y
    simp only [encodeOperands, bind_apply] at h
    cases hs : encodeStub s op (emit + 2 + 2 * ext.length) l with
    | mk res l1 =>
      rw [hs] at h
      cases res with
      | error e => simp at h
      | ok ve =>
        obtain ⟨v, e⟩ := ve
        simp only [] at h
        obtain ⟨vs, hlen, hr⟩ := ih (repl ++ [(s, v)]) (ext ++ e) l1 h
        refine ⟨v :: vs, by simp [hlen], ?_⟩
        rw [hr]
        simp

/-- **The instruction encoder never fails silently and never ends in an internal error**: for
every entry of the regenerated table, any operands of the classes its stubs expect (any number of
them), at any address. -/
theorem loud_compileInsn (e : InsnG) (he : e ∈ Gen.opcodes) (ops : List Operand) (emit : Int)
    (hc : ∀ x ∈ e.stubs.zip ops, Compatible x.1 x.2) : Loud (compileInsn e ops emit) := by
  unfold compileInsn
  by_cases hlen : ops.length ≠ e.stubs.length
  · rw [if_pos hlen]
    exact loud_bind _ _ (loud_err _) (fun _ => loud_pure _)
  · rw [if_neg hlen]
    have hlen' : ops.length = e.stubs.length := by omega
    have hw := (List.all_eq_true.mp Pdpy11.Props.C01.wiring_ok_all) e he
    refine loud_bind_post _ _ (fun ra => ∃ vs : List Int, vs.length = e.stubs.length ∧ ra.1 = e.stubs.zip vs)
      (loud_encodeOperands emit _ hc [] []) ?_ ?_
    · intro l a l' h
      obtain ⟨r, x⟩ := a
      obtain ⟨vs, hl, hr⟩ := encodeOperands_shape emit _ [] [] l l' r x h
      refine ⟨vs, ?_, ?_⟩
      · rw [hl]; simp [hlen']
      · simp only [hr, List.nil_append]
        congr 1
        exact List.map_fst_zip (by omega)
    · intro a hP
      obtain ⟨r, x⟩ := a
      obtain ⟨vs, hl, hr⟩ := hP
      simp only [] at hr
      obtain ⟨base, slots, _, hG⟩ := Pdpy11.Props.C01.getOpcode_numeric e hw vs hl
      simp only [hr, hG]
      exact loud_pure _


end Pdpy11.Props.C08


/-
The stack of values being computed (`deferred.Awaiting`), on graphs of thunks that may be cyclic
(`Model/Await.lean`): every wait ends — `wait_ends`, for every store and expression, with a fuel
fixed by the sizes alone, so the fuel is an artefact of the definition and not an assumption;
a cycle is reported only when some thunk really depends on itself (`cycle_sound`), never on a
graph that has a rank (`acyclic_no_cycle`); and an answer other than `cycle` is the answer of
the engine without a stack (`agrees_with_plain`).  This is the value-level reason why
"never loops forever" holds for lazily resolved values.
-/
namespace Pdpy11.Props.C08.Await
open Pdpy11.Model.Thunk Pdpy11.Model.Await

/-- `i` depends on `j`: one or more steps from a thunk to a thunk its body mentions -/
inductive Path (s : Store) : Nat → Nat → Prop
  | edge {i j : Nat} {t : Th} : s.thunks[i]? = some t → j ∈ refs t.fn → Path s i j
  | step {i j k : Nat} {t : Th} : Path s i j → s.thunks[j]? = some t → k ∈ refs t.fn → Path s i k

/-- the stack discipline: everything on the stack depends on everything the expression in hand mentions -/
def Chain (s : Store) (st : List Nat) (e : E) : Prop := ∀ j ∈ st, ∀ k ∈ refs e, Path s j k

theorem cycle_sound_aux (s : Store) (f : Nat) : ∀ (st : List Nat) (e : E), Chain s st e →
    evalAw s st f e = .cycle → ∃ j, Path s j j := by
  induction f with
  | zero => intro st e _ h; simp [evalAw] at h
  | succ f ih =>
    intro st e hc h
    cases e with
    | lit k => simp [evalAw] at h
    | prom i =>
      simp only [evalAw] at h
      split at h <;> simp at h
    | thunk j =>
      simp only [evalAw] at h
      split at h
      · rename_i hin
        have hj : j ∈ st := by simpa using hin
        exact ⟨j, hc j hj j (by simp [refs])⟩
      · rename_i hnin
        split at h
        · simp at h
        · rename_i t ht
          apply ih (j :: st) t.fn _ h
          intro j' hj' k hk
          rcases List.mem_cons.mp hj' with rfl | hj'
          · exact Path.edge ht hk
          · exact Path.step (hc j' hj' j (by simp [refs])) ht hk
    | add a b =>
      have hca : Chain s st a := fun j hj k hk => hc j hj k (by simp [refs, hk])
      have hcb : Chain s st b := fun j hj k hk => hc j hj k (by simp [refs, hk])
      simp only [evalAw] at h
      split at h
      · split at h
        · simp at h
        · rename_i r hr
          exact ih st b hcb h
      · rename_i r hr
        exact ih st a hca h

/-- a cycle is reported only when there is one: some thunk depends on itself -/
theorem cycle_sound (s : Store) (f : Nat) (e : E) (h : evalAw s [] f e = .cycle) : ∃ j, Path s j j :=
  cycle_sound_aux s f [] e (by intro j hj; simp at hj) h

theorem path_rank (s : Store) (rk : Nat → Nat)
    (hac : ∀ i t j, s.thunks[i]? = some t → j ∈ refs t.fn → rk j < rk i) {i j : Nat} (p : Path s i j) : rk j < rk i := by
  induction p with
  | edge ht hk => exact hac _ _ _ ht hk
  | step _ ht hk ih => exact Nat.lt_trans (hac _ _ _ ht hk) ih

/-- on a graph without cycles (a rank that falls along every dependence) no wait ever reports one -/
theorem acyclic_no_cycle (s : Store) (rk : Nat → Nat)
    (hac : ∀ i t j, s.thunks[i]? = some t → j ∈ refs t.fn → rk j < rk i) (f : Nat) (e : E) :
    evalAw s [] f e ≠ .cycle := by
  intro h
  obtain ⟨j, p⟩ := cycle_sound s f e h
  exact Nat.lt_irrefl _ (path_rank s rk hac p)

/-- how many of the first `n` thunks are not on the stack -/
def free (st : List Nat) (n : Nat) : Nat := ((List.range n).filter (fun i => !st.contains i)).length

theorem free_nil (n : Nat) : free [] n = n := by
  simp only [free, List.contains_nil, Bool.not_false]
  rw [List.filter_eq_self.mpr (by simp)]; simp

theorem free_cons_le (j : Nat) (st : List Nat) (n : Nat) : free (j :: st) n ≤ free st n := by
  induction n with
  | zero => simp [free]
  | succ n ih =>
    simp only [free, List.range_succ, List.filter_append, List.length_append] at *
    have : (List.filter (fun i => !(j :: st).contains i) [n]).length ≤ (List.filter (fun i => !st.contains i) [n]).length := by
      by_cases h1 : st.contains n <;> by_cases h2 : n = j <;> simp [List.filter, h2]
    omega

theorem free_cons_lt (j : Nat) (st : List Nat) (n : Nat) (hj : j < n) (hn : st.contains j = false) :
    free (j :: st) n + 1 ≤ free st n := by
  induction n with
  | zero => omega
  | succ n ih =>
    by_cases hjn : j = n
    · subst hjn
      have h0 := free_cons_le j st j
      simp only [free, List.range_succ, List.filter_append, List.length_append] at *
      have h1 : (List.filter (fun i => !(j :: st).contains i) [j]).length = 0 := by simp [List.filter]
      have hn' : j ∉ st := by simpa using hn
      have h2 : (List.filter (fun i => !st.contains i) [j]).length = 1 := by simp [List.filter, hn']
      omega
    · have hlt : j < n := by omega
      have h0 := ih hlt
      simp only [free, List.range_succ, List.filter_append, List.length_append] at *
      have : (List.filter (fun i => !(j :: st).contains i) [n]).length ≤ (List.filter (fun i => !st.contains i) [n]).length := by
        by_cases h1 : st.contains n <;> by_cases h2 : n = j <;> simp [List.filter, h2]
      omega

theorem esize_pos (e : E) : 0 < esize e := by cases e <;> simp [esize]

/-- the stack makes every wait end, whatever the graph: the fuel below is never used up -/
theorem ends_aux (s : Store) (M : Nat) (hM : ∀ (j : Nat) (t : Th), s.thunks[j]? = some t → esize t.fn ≤ M) (f : Nat) :
    ∀ (st : List Nat) (e : E), esize e + free st s.thunks.length * (M + 1) ≤ f → evalAw s st f e ≠ .fuel := by
  induction f with
  | zero => intro st e h; have := esize_pos e; omega
  | succ f ih =>
    intro st e h
    cases e with
    | lit k => simp [evalAw]
    | prom i => simp only [evalAw]; split <;> simp
    | thunk j =>
      simp only [evalAw]
      split
      · simp
      · rename_i hnin
        split
        · simp
        · rename_i t ht
          have hjn : j < s.thunks.length := by
            rcases Nat.lt_or_ge j s.thunks.length with h' | h'
            · exact h'
            · rw [List.getElem?_eq_none h'] at ht; cases ht
          have hfree := free_cons_lt j st s.thunks.length hjn (by simpa using hnin)
          have hsz := hM j t ht
          apply ih
          have hmul := Nat.mul_le_mul_right (M + 1) hfree
          rw [Nat.add_mul] at hmul
          simp only [esize] at h
          generalize free (j :: st) s.thunks.length * (M + 1) = X at *
          generalize free st s.thunks.length * (M + 1) = Y at *
          omega
    | add a b =>
      simp only [esize] at h
      have ha := ih st a (by omega)
      have hb := ih st b (by omega)
      simp only [evalAw]
      split
      · split
        · simp
        · rename_i r hr hnv
          exact hb
      · rename_i r hr
        exact ha

/-- every wait ends, on every graph of thunks (cyclic or not), within a fuel that depends only on sizes -/
theorem wait_ends (s : Store) (M : Nat) (hM : ∀ (j : Nat) (t : Th), s.thunks[j]? = some t → esize t.fn ≤ M) (e : E) :
    evalAw s [] (esize e + s.thunks.length * (M + 1)) e ≠ .fuel :=
  ends_aux s M hM _ [] e (by simp [free_nil])

/-- what the stack does not change: an answer that is not `cycle` is the answer of the engine without a stack -/
theorem agrees_with_plain (s : Store) (f : Nat) : ∀ (st : List Nat) (e : E),
    (∀ v, evalAw s st f e = .value v → evalPlain s f e = .value v) ∧
    (evalAw s st f e = .notReady → evalPlain s f e = .notReady) := by
  induction f with
  | zero => intro st e; simp [evalAw]
  | succ f ih =>
    intro st e
    cases e with
    | lit k => simp [evalAw, evalPlain]
    | prom i => simp only [evalAw, evalPlain]; cases hp : promVal s i <;> simp
    | thunk j =>
      simp only [evalAw, evalPlain]
      split
      · simp
      · cases ht : s.thunks[j]? with
        | none => simp
        | some t => exact ih (j :: st) t.fn
    | add a b =>
      have ha := ih st a
      have hb := ih st b
      simp only [evalAw, evalPlain]
      constructor
      · intro v h
        split at h
        · rename_i x hx
          rw [ha.1 x hx]
          split at h
          · rename_i y hy
            rw [hb.1 y hy]; simpa using h
          · rename_i r hr
            rw [hb.1 v h] at *
            exact absurd h (by intro h'; exact hr v h')
        · rename_i r hr
          exact absurd h (by intro h'; exact hr v h')
      · intro h
        split at h
        · rename_i x hx
          rw [ha.1 x hx]
          split at h
          · simp at h
          · rename_i r hr
            rw [hb.2 h]
        · rename_i r hr
          rw [ha.2 h]

/-- the memories change nothing about the shape of the graph: as many thunks, each with the body it had -/
def SameShape (s s' : Store) : Prop :=
  s'.thunks.length = s.thunks.length ∧ ∀ (j : Nat) (t : Th), s.thunks[j]? = some t → ∃ t', s'.thunks[j]? = some t' ∧ t'.fn = t.fn

theorem SameShape.refl (s : Store) : SameShape s s := ⟨rfl, fun _ t h => ⟨t, h, rfl⟩⟩

theorem SameShape.trans {a b c : Store} (h1 : SameShape a b) (h2 : SameShape b c) : SameShape a c := by
  refine ⟨h2.1.trans h1.1, ?_⟩
  intro j t ht
  obtain ⟨t1, ht1, hf1⟩ := h1.2 j t ht
  obtain ⟨t2, ht2, hf2⟩ := h2.2 j t1 ht1
  exact ⟨t2, ht2, hf2.trans hf1⟩

theorem shape_setThunk (s : Store) (j : Nat) (t0 t' : Th) (h0 : s.thunks[j]? = some t0) (hfn : t'.fn = t0.fn) :
    SameShape s (setThunk s j t') := by
  refine ⟨by simp [setThunk], ?_⟩
  intro i t ht
  by_cases hij : i = j
  · subst hij
    have hlt : i < s.thunks.length := by
      rcases Nat.lt_or_ge i s.thunks.length with h | h
      · exact h
      · rw [List.getElem?_eq_none h] at ht; cases ht
    refine ⟨t', by simp [setThunk, hlt], ?_⟩
    rw [h0] at ht; cases ht; exact hfn
  · refine ⟨t, ?_, rfl⟩
    simp only [setThunk]
    rw [List.getElem?_set_ne (Ne.symm hij)]; exact ht

theorem bound_of_shape {s s' : Store} (h : SameShape s s') (M : Nat)
    (hM : ∀ (j : Nat) (t : Th), s.thunks[j]? = some t → esize t.fn ≤ M) :
    ∀ (j : Nat) (t : Th), s'.thunks[j]? = some t → esize t.fn ≤ M := by
  intro j t' ht'
  have hlt : j < s.thunks.length := by
    rcases Nat.lt_or_ge j s'.thunks.length with h' | h'
    · rw [h.1] at h'; exact h'
    · rw [List.getElem?_eq_none h'] at ht'; cases ht'
  obtain ⟨t1, ht1, hf⟩ := h.2 j s.thunks[j] (List.getElem?_eq_getElem hlt)
  rw [ht'] at ht1; cases ht1
  rw [hf]; exact hM j _ (List.getElem?_eq_getElem hlt)

/-- the code itself (stack and both memories) ends on every graph, and leaves the graph as it was -/
theorem memo_ends_aux (M : Nat) (f : Nat) : ∀ (s : Store) (st : List Nat) (e : E),
    (∀ (j : Nat) (t : Th), s.thunks[j]? = some t → esize t.fn ≤ M) →
    esize e + free st s.thunks.length * (M + 1) ≤ f →
    (evalAwMemo s st f e).1 ≠ .fuel ∧ SameShape s (evalAwMemo s st f e).2 := by
  induction f with
  | zero => intro s st e _ h; have := esize_pos e; omega
  | succ f ih =>
    intro s st e hM h
    cases e with
    | lit k => simp [evalAwMemo, SameShape.refl]
    | prom i => simp only [evalAwMemo]; split <;> simp [SameShape.refl]
    | thunk j =>
      simp only [evalAwMemo]
      split
      · simp [SameShape.refl]
      · rename_i hnin
        split
        · simp [SameShape.refl]
        · rename_i t ht
          split
          · simp [SameShape.refl]
          · split
            · simp [SameShape.refl]
            · have hjn : j < s.thunks.length := by
                rcases Nat.lt_or_ge j s.thunks.length with h' | h'
                · exact h'
                · rw [List.getElem?_eq_none h'] at ht; cases ht
              have hfree := free_cons_lt j st s.thunks.length hjn (by simpa using hnin)
              have hsz := hM j t ht
              have hfuel : esize t.fn + free (j :: st) s.thunks.length * (M + 1) ≤ f := by
                have hmul := Nat.mul_le_mul_right (M + 1) hfree
                rw [Nat.add_mul] at hmul
                simp only [esize] at h
                generalize free (j :: st) s.thunks.length * (M + 1) = X at *
                generalize free st s.thunks.length * (M + 1) = Y at *
                omega
              have hrec := ih s (j :: st) t.fn hM hfuel
              generalize evalAwMemo s (j :: st) f t.fn = r at hrec
              obtain ⟨r1, s1⟩ := r
              obtain ⟨t1, ht1, hf1⟩ := hrec.2.2 j t ht
              have hset : ∀ t' : Th, t'.fn = t1.fn → SameShape s (setThunk s1 j t') :=
                fun t' hf' => SameShape.trans hrec.2 (shape_setThunk s1 j t1 t' ht1 hf')
              cases r1 with
              | value v => exact ⟨by simp, hset _ (by simp [ht1])⟩
              | notReady => exact ⟨by simp, hset _ (by simp [ht1])⟩
              | cycle => exact ⟨by simp, hset _ (by simp [ht1])⟩
              | fuel => exact absurd rfl hrec.1
    | add a b =>
      simp only [esize] at h
      have ha := ih s st a hM (by omega)
      simp only [evalAwMemo]
      generalize evalAwMemo s st f a = ra at ha
      obtain ⟨ra1, s1⟩ := ra
      cases ra1 with
      | value x =>
        dsimp only at ha ⊢
        have hM1 := bound_of_shape ha.2 M hM
        have hb := ih s1 st b hM1 (by rw [ha.2.1]; omega)
        generalize evalAwMemo s1 st f b = rb at hb ⊢
        obtain ⟨rb1, s2⟩ := rb
        cases rb1 with
        | value y => exact ⟨by simp, SameShape.trans ha.2 hb.2⟩
        | notReady => exact ⟨by simp, SameShape.trans ha.2 hb.2⟩
        | cycle => exact ⟨by simp, SameShape.trans ha.2 hb.2⟩
        | fuel => exact absurd rfl hb.1
      | notReady => exact ⟨by simp, ha.2⟩
      | cycle => exact ⟨by simp, ha.2⟩
      | fuel => exact absurd rfl ha.1

/-- every wait of the code ends, on every graph of thunks, within a fuel that depends only on sizes -/
theorem memo_wait_ends (s : Store) (M : Nat) (hM : ∀ (j : Nat) (t : Th), s.thunks[j]? = some t → esize t.fn ≤ M) (e : E) :
    (evalAwMemo s [] (esize e + s.thunks.length * (M + 1)) e).1 ≠ .fuel :=
  (memo_ends_aux M _ s [] e hM (by simp [free_nil])).1

/-- the premises are met and the conclusions are not empty: `a = b + 1`, `b = a` is reported, and it is a cycle -/
def twoCycle : Store := ⟨[none], [⟨.add (.thunk 1) (.lit 1), none, none⟩, ⟨.thunk 0, none, none⟩], 0⟩
example : evalAw twoCycle [] 10 (.thunk 0) = .cycle := by decide
example : Path twoCycle 0 0 :=
  Path.step (j := 1) (t := ⟨.thunk 0, none, none⟩) (Path.edge (j := 1) (t := ⟨.add (.thunk 1) (.lit 1), none, none⟩) rfl (by decide)) rfl (by decide)
example : evalAw twoCycle [] 10 (.add (.prom 0) (.thunk 0)) = .notReady := by decide

end Pdpy11.Props.C08.Await
