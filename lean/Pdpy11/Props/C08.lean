import Pdpy11.Props.C01
import Pdpy11.Model.Insn
import Pdpy11.Model.Directive
import Pdpy11.Model.Defs
import Pdpy11.Model.State
/-
C08  Every input ends in a result or a reported error.

What a theorem can carry here: the value-level core is made of total functions (Lean accepts
no other), so on every input they terminate; and every way they fail is *loud*: an abort is
always preceded by an error report, and no path of the modelled operand classes reaches the
`crash` outcome (which stands for an internal exception).  `Loud` is proved compositionally
(pure, report, bind, list traversal) and then for every primitive the instruction encoder and
the data directives are made of.  The lazy evaluator `Defs.eval` reports every undefined name,
and a cycle ends as `none` (out of fuel), never as a value.

What it cannot carry: the parser and the whole-program elaboration are `partial def`s (their
termination is not proved), and Python-level failures (recursion depth, integer-to-string
limits, I/O) have no counterpart in the model — for those the exploration over grammar G with
the watchdog is what decides.
-/
namespace Pdpy11.Props.C08
open Pdpy11.Model Pdpy11.Model.Insn Pdpy11.Model.Directive

/-- a computation that never fails silently and never ends in an internal error: on success
the error log only grows, an abort comes with at least one new error report, and the `crash`
outcome is unreachable -/
def Loud {α : Type} (m : M α) : Prop :=
  ∀ l : Log, match (m l).r with
    | .ok _ => l.errs.length ≤ (m l).log.errs.length
    | .error .abort => l.errs.length < (m l).log.errs.length
    | .error (.crash _) => False

theorem loud_pure {α : Type} (a : α) : Loud (pure a : M α) := by
  intro l; simp

theorem loud_err (id : String) : Loud (err id) := by
  intro l; simp

theorem loud_warn (id : String) : Loud (warn id) := by
  intro l; simp

theorem loud_bind {α β : Type} (m : M α) (f : α → M β) (hm : Loud m) (hf : ∀ a, Loud (f a)) : Loud (m >>= f) := by
  intro l
  have h1 := hm l
  simp only [bind_apply]
  cases hr : m l with
  | mk r l' =>
    rw [hr] at h1
    cases r with
    | ok a =>
      simp only [] at h1 ⊢
      have h2 := hf a l'
      cases hr2 : f a l' with
      | mk r2 l'' =>
        rw [hr2] at h2
        cases r2 with
        | ok b => simp only [] at h2 ⊢; omega
        | error e =>
          cases e with
          | abort => simp only [] at h2 ⊢; omega
          | crash w => simp only [] at h2
    | error e =>
      cases e with
      | abort => simpa using h1
      | crash w => simp only [] at h1

/-- report, then abort: the only way the model aborts -/
theorem loud_err_abort {α : Type} (id : String) : Loud (do err id; (abort : M α)) := by
  intro l; simp

theorem loud_mapM {α β : Type} (f : α → M β) (hf : ∀ a, Loud (f a)) (xs : List α) : Loud (mapM' f xs) := by
  induction xs with
  | nil => exact loud_pure _
  | cons a as ih =>
    unfold mapM'
    exact loud_bind _ _ (hf a) (fun b => loud_bind _ _ ih (fun bs => loud_pure _))

theorem loud_getAsIntM (b : Option Nat) (u : Bool) (v : Int) : Loud (getAsIntM b u v) := by
  unfold getAsIntM
  cases getAsInt b u v with
  | ok x => exact loud_pure _
  | error e => exact loud_err_abort e

theorem loud_getAsIntDefault (b : Option Nat) (u : Bool) (d : Nat) (v : Int) : Loud (getAsIntDefault b u d v) := by
  unfold getAsIntDefault
  cases getAsInt b u v with
  | ok x => exact loud_pure _
  | error e => exact loud_bind _ _ (loud_err e) (fun _ => loud_pure _)

theorem loud_regNum (r : RegRef) : Loud (regNum r) := by
  cases r with
  | named n => exact loud_pure _
  | pct v => exact loud_getAsIntM _ _ _

/-- every CPU operand form: the register-mode field never fails silently -/
theorem loud_encodeRM (op : Operand) (rel : Int) (h : ∀ n, op ≠ .acc n) : Loud (encodeRM op rel) := by
  cases op with
  | reg r => exact loud_bind _ _ (loud_regNum r) (fun _ => loud_pure _)
  | regDef r legacy =>
    refine loud_bind _ _ (loud_regNum r) (fun n => ?_)
    cases legacy
    · exact loud_pure _
    · exact loud_bind _ _ (loud_warn _) (fun _ => loud_pure _)
  | autoInc r => exact loud_bind _ _ (loud_regNum r) (fun _ => loud_pure _)
  | autoIncDef r => exact loud_bind _ _ (loud_regNum r) (fun _ => loud_pure _)
  | autoDec r => exact loud_bind _ _ (loud_regNum r) (fun _ => loud_pure _)
  | autoDecDef r => exact loud_bind _ _ (loud_regNum r) (fun _ => loud_pure _)
  | index x r => exact loud_bind _ _ (loud_regNum r) (fun _ => loud_bind _ _ (loud_getAsIntM _ _ _) (fun _ => loud_pure _))
  | indexDef x r => exact loud_bind _ _ (loud_regNum r) (fun _ => loud_bind _ _ (loud_getAsIntM _ _ _) (fun _ => loud_pure _))
  | indexDef0 r => exact loud_bind _ _ (loud_regNum r) (fun _ => loud_bind _ _ (loud_warn _) (fun _ => loud_pure _))
  | imm v => exact loud_bind _ _ (loud_getAsIntM _ _ _) (fun _ => loud_pure _)
  | abs v => exact loud_bind _ _ (loud_getAsIntM _ _ _) (fun _ => loud_pure _)
  | expr t => exact loud_pure _
  | exprDef t => exact loud_pure _
  | acc n => exact absurd rfl (h n)

theorem loud_encodeReg (op : Operand) : Loud (encodeReg op) := by
  cases op <;> first | exact loud_regNum _ | exact loud_err_abort _

theorem loud_encodeAcc (w : Nat) (op : Operand) : Loud (encodeAcc w op) := by
  cases op with
  | acc n =>
    unfold encodeAcc
    by_cases h : n ≥ 2 ^ w
    · simp only [h, if_true]; exact loud_err_abort _
    · simp only [h, if_false]; exact loud_pure _
  | _ => exact loud_err_abort _

theorem loud_forErr (es : List String) : Loud (forIn es PUnit.unit (fun e _ => do err e; pure (ForInStep.yield PUnit.unit)) : M PUnit) := by
  induction es with
  | nil => exact loud_pure _
  | cons e es ih =>
    simp only [List.forIn_cons]
    refine loud_bind _ _ (loud_bind _ _ (loud_err e) (fun _ => loud_pure _)) (fun s => ?_)
    cases s with
    | done b => exact loud_pure _
    | yield b => exact ih

/-! ### data directives -/

theorem loud_oddPrefix (emit : Int) : Loud (oddPrefix emit) := by
  unfold oddPrefix
  by_cases h : emit % 2 = 1
  · simp only [h, if_true]; exact loud_bind _ _ (loud_err _) (fun _ => loud_pure _)
  · simp only [h, if_false]; exact loud_pure _

theorem loud_byteDir (vals : List Int) : Loud (byteDir vals) := by
  unfold byteDir
  refine loud_bind _ _ (loud_mapM _ (fun v => loud_getAsIntM _ _ v) vals) (fun cooked => ?_)
  by_cases h : cooked.isEmpty
  · simp only [h, if_true]; exact loud_bind _ _ (loud_warn _) (fun _ => loud_pure _)
  · simp only [h]; exact loud_pure _

theorem loud_wordDir (emit : Int) (vals : List Int) : Loud (wordDir emit vals) := by
  unfold wordDir
  refine loud_bind _ _ (loud_mapM _ (fun v => loud_getAsIntM _ _ v) vals) (fun cooked => ?_)
  refine loud_bind _ _ (loud_oddPrefix emit) (fun pre => ?_)
  by_cases h : cooked.isEmpty
  · simp only [h, if_true]; exact loud_bind _ _ (loud_warn _) (fun _ => loud_pure _)
  · simp only [h]; exact loud_pure _

theorem loud_wordList (emit : Int) (vals : List Int) : Loud (wordList emit vals) := by
  unfold wordList
  exact loud_bind _ _ (loud_mapM _ (fun v => loud_getAsIntM _ _ v) vals) (fun _ => loud_bind _ _ (loud_oddPrefix emit) (fun _ => loud_pure _))

theorem loud_blkb (n : Int) : Loud (blkb n) := loud_bind _ _ (loud_getAsIntM _ _ _) (fun _ => loud_pure _)
theorem loud_blkw (n : Int) : Loud (blkw n) := loud_bind _ _ (loud_getAsIntM _ _ _) (fun _ => loud_pure _)

theorem loud_align (emit n : Int) : Loud (align emit n) := by
  unfold align
  refine loud_bind _ _ (loud_getAsIntM _ _ _) (fun c => ?_)
  by_cases h : c = 0
  · simp only [h, if_true]; exact loud_bind _ _ (loud_err _) (fun _ => loud_pure _)
  · simp only [h, if_false]; exact loud_pure _

theorem loud_asciiImpl (cs : Charset) (chunks : List StrChunk) : Loud (asciiImpl cs chunks) := by
  induction chunks with
  | nil => exact loud_pure _
  | cons c rest ih =>
    cases c with
    | angle v =>
      unfold asciiImpl
      exact loud_bind _ _ (loud_getAsIntDefault _ _ _ _) (fun _ => loud_bind _ _ ih (fun _ => loud_pure _))
    | str s =>
      unfold asciiImpl
      cases encodeStr cs s with
      | some bs =>
        simp only []
        exact loud_bind _ _ (loud_pure _) (fun _ => loud_bind _ _ ih (fun _ => loud_pure _))
      | none =>
        simp only []
        exact loud_bind _ _ (loud_err _) (fun _ => loud_bind _ _ (loud_pure _) (fun _ => loud_bind _ _ ih (fun _ => loud_pure _)))

/-! ### the lazy evaluator: undefined names are reported, cycles never yield a value -/

open Pdpy11.Model.Defs in
theorem undefined_reports (t : Table) (f : Nat) (n : String) (h : Scope.lookup t n = none) :
    eval t (f + 1) (.ref n) = some ⟨0, ["undefined-symbol"]⟩ := by
  simp [eval, h]

open Pdpy11.Model.Defs in
/-- a definition that refers to itself never gets a value, whatever the fuel -/
theorem self_reference_no_value (n : String) (f : Nat) : eval [(n, .ref n)] f (.ref n) = none := by
  induction f with
  | zero => rfl
  | succ f ih => simp [eval, Scope.lookup, List.find?, ih]

open Pdpy11.Model.Defs in
/-- … nor does `a = a + k` -/
theorem self_increment_no_value (n : String) (k : Int) (f : Nat) :
    eval [(n, .bin "add" (.ref n) (.lit k))] f (.ref n) = none ∧ eval [(n, .bin "add" (.ref n) (.lit k))] f (.bin "add" (.ref n) (.lit k)) = none := by
  induction f with
  | zero => exact ⟨rfl, rfl⟩
  | succ f ih =>
    constructor
    · simp [eval, Scope.lookup, List.find?, ih.2]
    · simp only [eval, ih.1]

/-! ### the report machinery: an error report always turns the run into a failure -/

open Pdpy11.Model.State in
/-- inside a handler, a computation that reports an error and then returns normally leaves the
`with` block as `UnrecoverableError`: success with an error report is impossible -/
theorem error_report_fails (h : Nat) (st : St) (log : List (Nat × Sev)) :
    (run (.handler h (.report .error)) st log).1 = some .unrecoverable := by
  simp [run]

open Pdpy11.Model.State in
theorem critical_report_fails (h : Nat) (st : St) (log : List (Nat × Sev)) :
    (run (.handler h (.report .critical)) st log).1 = some .unrecoverable := by
  simp [run]

open Pdpy11.Model.State in
/-- … while warnings alone do not fail it -/
theorem warning_report_passes (h : Nat) (st : St) (log : List (Nat × Sev)) :
    (run (.handler h (.report .warning)) st log).1 = none := by
  simp [run]

/-! ### not vacuous -/

example : (byteDir [1, 256]).run.r = .error .abort ∧ (byteDir [1, 256]).run.log.errs = ["value-out-of-bounds"] := ⟨rfl, rfl⟩
example : (encodeRM (.index 70000 (.named 1)) 0).run.r = .error .abort := rfl

/-! ## second part: the whole instruction encoder is loud -/
open Pdpy11.Gen

/-- bind with a postcondition on the intermediate result -/
theorem loud_bind_post {α β : Type} (m : M α) (f : α → M β) (P : α → Prop) (hm : Loud m)
    (hP : ∀ l a l', m l = ⟨.ok a, l'⟩ → P a) (hf : ∀ a, P a → Loud (f a)) : Loud (m >>= f) := by
  intro l
  have h1 := hm l
  simp only [bind_apply]
  cases hr : m l with
  | mk r l' =>
    rw [hr] at h1
    cases r with
    | ok a =>
      simp only [] at h1 ⊢
      have h2 := hf a (hP l a l' hr) l'
      cases hr2 : f a l' with
      | mk r2 l'' =>
        rw [hr2] at h2
        cases r2 with
        | ok b => simp only [] at h2 ⊢; omega
        | error e =>
          cases e with
          | abort => simp only [] at h2 ⊢; omega
          | crash w => simp only [] at h2
    | error e =>
      cases e with
      | abort => simpa using h1
      | crash w => simp only [] at h1

/-- the operand is of a class the stub's encoder handles (what `Classify` delivers) -/
def Compatible (s : StubG) (op : Operand) : Prop :=
  match s.cls with
  | .register => True
  | .registerMode => ∀ n, op ≠ .acc n
  | .fp11rm => True
  | .fp11acc => True
  | .offset => ∃ t, op = .expr t
  | .immediate => (∃ v, op = .imm v) ∨ (∃ v, op = .expr v)

theorem loud_encodeFP11RM (op : Operand) (rel : Int) : Loud (encodeFP11RM op rel) := by
  cases op with
  | acc n => exact loud_pure _
  | reg r =>
    refine loud_bind _ _ (loud_regNum r) (fun n => ?_)
    by_cases h : n < 6
    · simp only [h, if_true]; exact loud_bind _ _ (loud_warn _) (fun _ => loud_pure _)
    · simp only [h, if_false]; exact loud_bind _ _ (loud_err _) (fun _ => loud_pure _)
  | regDef r legacy => exact loud_encodeRM _ rel (fun n => by simp)
  | autoInc r => exact loud_encodeRM _ rel (fun n => by simp)
  | autoIncDef r => exact loud_encodeRM _ rel (fun n => by simp)
  | autoDec r => exact loud_encodeRM _ rel (fun n => by simp)
  | autoDecDef r => exact loud_encodeRM _ rel (fun n => by simp)
  | index x r => exact loud_encodeRM _ rel (fun n => by simp)
  | indexDef x r => exact loud_encodeRM _ rel (fun n => by simp)
  | indexDef0 r => exact loud_encodeRM _ rel (fun n => by simp)
  | imm v => exact loud_encodeRM _ rel (fun n => by simp)
  | abs v => exact loud_encodeRM _ rel (fun n => by simp)
  | expr t => exact loud_pure _
  | exprDef t => exact loud_pure _

theorem loud_encodeStub (s : StubG) (op : Operand) (rel : Int) (h : Compatible s op) : Loud (encodeStub s op rel) := by
  unfold encodeStub
  unfold Compatible at h
  cases hc : s.cls with
  | register => simp only []; exact loud_bind _ _ (loud_encodeReg op) (fun _ => loud_pure _)
  | registerMode =>
    simp only [hc] at h
    simp only []
    exact loud_bind _ _ (loud_encodeRM op rel h) (fun _ => loud_pure _)
  | fp11rm => simp only []; exact loud_bind _ _ (loud_encodeFP11RM op rel) (fun _ => loud_pure _)
  | fp11acc => simp only []; exact loud_bind _ _ (loud_encodeAcc _ op) (fun _ => loud_pure _)
  | offset =>
    simp only [hc] at h
    obtain ⟨t, rfl⟩ := h
    simp only [encodeOffset]
    refine loud_bind _ _ ?_ (fun _ => loud_pure _)
    exact loud_bind _ _ (loud_forErr _) (fun _ => loud_pure _)
  | immediate =>
    simp only [hc] at h
    simp only []
    refine loud_bind _ _ ?_ (fun _ => loud_pure _)
    have hjp : ∀ v : Int, Loud (match immField s.bits.length s.unsigned v with
        | (f, es) => (do
          forIn es PUnit.unit (fun e _ => do err e; pure (ForInStep.yield PUnit.unit))
          pure f : M Int)) := by
      intro v
      cases immField s.bits.length s.unsigned v with
      | mk f es => exact loud_bind _ _ (loud_forErr es) (fun _ => loud_pure f)
    rcases h with ⟨v, rfl⟩ | ⟨v, rfl⟩
    · unfold encodeImm
      simp only []
      exact loud_bind _ _ (loud_warn _) (fun _ => loud_bind _ _ (loud_pure _) (fun v' => hjp v'))
    · unfold encodeImm
      simp only []
      exact loud_bind _ _ (loud_pure _) (fun v' => hjp v')

theorem loud_encodeOperands (emit : Int) (pairs : List (StubG × Operand)) (hc : ∀ x ∈ pairs, Compatible x.1 x.2)
    (repl : List (StubG × Int)) (ext : List Nat) : Loud (encodeOperands emit pairs repl ext) := by
  induction pairs generalizing repl ext with
  | nil => exact loud_pure _
  | cons x rest ih =>
    obtain ⟨s, op⟩ := x
    unfold encodeOperands
    refine loud_bind _ _ (loud_encodeStub s op _ (hc (s, op) (by simp))) (fun ve => ?_)
    obtain ⟨v, e⟩ := ve
    exact ih (fun y hy => hc y (by simp [hy])) _ _

/-- the replacements handed to `get_opcode` are the stubs in order, each with some value -/
theorem encodeOperands_shape (emit : Int) (pairs : List (StubG × Operand)) (repl : List (StubG × Int)) (ext : List Nat)
    (l l' : Log) (r : List (StubG × Int)) (x : List Nat) (h : encodeOperands emit pairs repl ext l = ⟨.ok (r, x), l'⟩) :
    ∃ vs : List Int, vs.length = pairs.length ∧ r = repl ++ (pairs.map Prod.fst).zip vs := by
  induction pairs generalizing repl ext l with
  | nil =>
    simp only [encodeOperands, pure_apply] at h
    injection h with h1 _
    injection h1 with h1
    injection h1 with hr _
    exact ⟨[], rfl, by simp [hr]⟩
  | cons y rest ih =>
    obtain ⟨s, op⟩ := y
    simp only [encodeOperands, bind_apply] at h
    cases hs : encodeStub s op (emit + 2 + 2 * ext.length) l with
    | mk res l1 =>
      rw [hs] at h
      cases res with
      | error e => simp at h
      | ok ve =>
        obtain ⟨v, e⟩ := ve
        simp only [] at h
        obtain ⟨vs, hlen, hr⟩ := ih (repl ++ [(s, v)]) (ext ++ e) l1 h
        refine ⟨v :: vs, by simp [hlen], ?_⟩
        rw [hr]
        simp

/-- **The instruction encoder never fails silently and never ends in an internal error**: for
every entry of the regenerated table, any operands of the classes its stubs expect (any number of
them), at any address. -/
theorem loud_compileInsn (e : InsnG) (he : e ∈ Gen.opcodes) (ops : List Operand) (emit : Int)
    (hc : ∀ x ∈ e.stubs.zip ops, Compatible x.1 x.2) : Loud (compileInsn e ops emit) := by
  unfold compileInsn
  by_cases hlen : ops.length ≠ e.stubs.length
  · rw [if_pos hlen]
    exact loud_bind _ _ (loud_err _) (fun _ => loud_pure _)
  · rw [if_neg hlen]
    have hlen' : ops.length = e.stubs.length := by omega
    have hw := (List.all_eq_true.mp Pdpy11.Props.C01.wiring_ok_all) e he
    refine loud_bind_post _ _ (fun ra => ∃ vs : List Int, vs.length = e.stubs.length ∧ ra.1 = e.stubs.zip vs)
      (loud_encodeOperands emit _ hc [] []) ?_ ?_
    · intro l a l' h
      obtain ⟨r, x⟩ := a
      obtain ⟨vs, hl, hr⟩ := encodeOperands_shape emit _ [] [] l l' r x h
      refine ⟨vs, ?_, ?_⟩
      · rw [hl]; simp [hlen']
      · simp only [hr, List.nil_append]
        congr 1
        exact List.map_fst_zip (by omega)
    · intro a hP
      obtain ⟨r, x⟩ := a
      obtain ⟨vs, hl, hr⟩ := hP
      simp only [] at hr
      obtain ⟨base, slots, _, hG⟩ := Pdpy11.Props.C01.getOpcode_numeric e hw vs hl
      simp only [hr, hG]
      exact loud_pure _


end Pdpy11.Props.C08
