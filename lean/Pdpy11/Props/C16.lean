import Pdpy11.Model.Layout
import Pdpy11.Model.Path
/-
C16  Structural directives preserve meaning.

Statements are arbitrary functions of their address (`Layout.Stmt`), so the theorems hold
for bodies with every operand form and expression shape, including `.`.
-/
namespace Pdpy11.Props.C16
open Pdpy11.Model Pdpy11.Model.Layout Pdpy11.Model.Insn Pdpy11.Model.Directive

theorem emitBlock_cons_noStop (s : Stmt) (rest : List Stmt) (a : Nat) (h : (s a).2 = false) :
    emitBlock (s :: rest) a = (s a).1 ++ emitBlock rest (a + (s a).1.length) := by
  rw [emitBlock]
  cases hs : s a with
  | mk b stop =>
    rw [hs] at h
    simp at h
    simp [h]

/-- a block followed by more statements: the second part starts where the first ended -/
theorem emitBlock_append (xs ys : List Stmt) (h : NoStop xs) (a : Nat) :
    emitBlock (xs ++ ys) a = emitBlock xs a ++ emitBlock ys (a + (emitBlock xs a).length) := by
  induction xs generalizing a with
  | nil => simp [emitBlock]
  | cons s xs ih =>
    have hs : (s a).2 = false := h s (by simp) a
    have hxs : NoStop xs := fun t ht => h t (by simp [ht])
    rw [List.cons_append, emitBlock_cons_noStop _ _ _ hs, emitBlock_cons_noStop _ _ _ hs, ih hxs]
    simp [List.append_assoc, Nat.add_assoc]

theorem noStop_append {xs ys : List Stmt} (hx : NoStop xs) (hy : NoStop ys) : NoStop (xs ++ ys) := by
  intro s hs a
  rcases List.mem_append.mp hs with h | h
  · exact hx s h a
  · exact hy s h a

theorem noStop_replicate_flatten (n : Nat) (body : List Stmt) (h : NoStop body) :
    NoStop (List.replicate n body).flatten := by
  induction n with
  | zero => intro s hs; simp at hs
  | succ n ih =>
    rw [List.replicate_succ, List.flatten_cons]
    exact noStop_append h ih

/-- `.repeat n { body }` emits exactly what the body written out n times emits, every copy at
its own address (so every copy sees its own `.`). -/
theorem repeat_unroll (n : Nat) (body : List Stmt) (h : NoStop body) (a : Nat) :
    repeatEmit n body a = emitBlock (List.replicate n body).flatten a := by
  induction n generalizing a with
  | zero => simp [repeatEmit, emitBlock]
  | succ n ih =>
    rw [List.replicate_succ, List.flatten_cons, emitBlock_append _ _ h, repeatEmit, ih]

/-- the same inside any program: the statement `.repeat n { body }` can be replaced by the n
copies wherever it stands (apply again for nested repeats: a repeat never stops a block). -/
theorem repeat_unroll_in_context (pre post : List Stmt) (n : Nat) (body : List Stmt)
    (hpre : NoStop pre) (h : NoStop body) (a : Nat) :
    emitBlock (pre ++ repeatStmt n body :: post) a = emitBlock (pre ++ ((List.replicate n body).flatten ++ post)) a := by
  rw [emitBlock_append _ _ hpre, emitBlock_append _ _ hpre]
  congr 1
  rw [emitBlock_append _ _ (noStop_replicate_flatten n body h)]
  rw [emitBlock_cons_noStop _ _ _ (by rfl)]
  simp only [repeatStmt]
  rw [repeat_unroll n body h]

theorem repeatStmt_noStop (n : Nat) (body : List Stmt) (a : Nat) : (repeatStmt n body a).2 = false := rfl
theorem blockStmt_noStop (body : List Stmt) (a : Nat) : (blockStmt body a).2 = false := rfl

/-- Linking files yields what their concatenation yields (none of them ending early). -/
theorem link_concat (files : List (List Stmt)) (h : ∀ f ∈ files, NoStop f) (a : Nat) :
    linkFiles files a = emitBlock files.flatten a := by
  induction files generalizing a with
  | nil => simp [linkFiles, emitBlock]
  | cons f rest ih =>
    have hf : NoStop f := h f (by simp)
    rw [List.flatten_cons, emitBlock_append _ _ hf, linkFiles, ih (fun g hg => h g (by simp [hg]))]

/-- `.end` discards exactly the rest of its own block (file). -/
theorem end_discards (pre post : List Stmt) (h : NoStop pre) (a : Nat) :
    emitBlock (pre ++ endStmt :: post) a = emitBlock pre a := by
  rw [emitBlock_append _ _ h]
  simp [emitBlock, endStmt]

/-- … and nothing of the files linked after it. -/
theorem end_discards_own_file_only (pre post : List Stmt) (rest : List (List Stmt)) (h : NoStop pre) (a : Nat) :
    linkFiles ((pre ++ endStmt :: post) :: rest) a = linkFiles (pre :: rest) a := by
  simp only [linkFiles, end_discards pre post h]

/-- … nor of the file that includes it. -/
theorem end_in_include (pre post outerPre outerPost : List Stmt) (h : NoStop pre) (ho : NoStop outerPre) (a : Nat) :
    emitBlock (outerPre ++ blockStmt (pre ++ endStmt :: post) :: outerPost) a
      = emitBlock (outerPre ++ blockStmt pre :: outerPost) a := by
  rw [emitBlock_append _ _ ho, emitBlock_append _ _ ho]
  congr 1
  rw [emitBlock_cons_noStop _ _ _ (by rfl), emitBlock_cons_noStop _ _ _ (by rfl)]
  simp only [blockStmt, end_discards pre post h]

/-- `.once`: the first compilation of the file contributes its body … -/
theorem once_first (body : List Stmt) (a : Nat) : emitBlock (onceStmt 1 :: body) a = emitBlock body a := by
  simp [emitBlock, onceStmt]

/-- … and every later one contributes nothing. -/
theorem once_again (t : Nat) (ht : t > 1) (body : List Stmt) (a : Nat) : emitBlock (onceStmt t :: body) a = [] := by
  simp [emitBlock, onceStmt, ht]

/-- an include is its statements in place -/
theorem include_inline (pre post body : List Stmt) (hpre : NoStop pre) (hb : NoStop body) (a : Nat) :
    emitBlock (pre ++ blockStmt body :: post) a = emitBlock (pre ++ (body ++ post)) a := by
  rw [emitBlock_append _ _ hpre, emitBlock_append _ _ hpre]
  congr 1
  rw [emitBlock_cons_noStop _ _ _ (by rfl), emitBlock_append _ _ hb]
  simp [blockStmt]

/-! ### `insert_file` is the same bytes written as `.byte` data -/

theorem getAsInt_byte (b : Nat) (h : b < 256) : getAsInt (some 8) false (b : Int) = .ok (b : Int) := by
  unfold getAsInt
  have h1 : ¬ ((b : Int) ≤ -256) := by omega
  have h2 : ¬ ((256 : Int) ≤ (b : Int)) := by omega
  have h3 : (b : Int) % 256 = (b : Int) := by omega
  simp [h1, h2, h3]

theorem getAsIntM_byte (b : Nat) (h : b < 256) (l : Log) : getAsIntM (some 8) false (b : Int) l = ⟨.ok b, l⟩ := by
  unfold getAsIntM
  rw [getAsInt_byte b h]
  simp

theorem mapMp_bytes (bs : List Nat) (h : ∀ b ∈ bs, b < 256) (l : Log) :
    mapM' (getAsIntM (some 8) false) (bs.map Int.ofNat) l = ⟨.ok bs, l⟩ := by
  induction bs generalizing l with
  | nil => rfl
  | cons b bs ih =>
    have hb : b < 256 := h b (by simp)
    have := getAsIntM_byte b hb l
    simp only [List.map_cons, mapM', bind_apply]
    rw [show (Int.ofNat b) = (b : Int) from rfl, this]
    simp only [ih (fun x hx => h x (by simp [hx])) l]
    rfl

/-- the chunk `insert_file` emits for a non-empty file (its bytes) is what `.byte b1, …, bn`
emits, with no report -/
theorem insert_eq_byte (bs : List Nat) (h : ∀ b ∈ bs, b < 256) (hne : bs ≠ []) :
    (byteDir (bs.map Int.ofNat)).run = ⟨.ok bs, {}⟩ := by
  unfold byteDir M.run
  simp only [bind_apply, mapMp_bytes bs h]
  cases bs with
  | nil => exact absurd rfl hne
  | cons b bs => rfl

/-! ### not vacuous -/

/-- three copies of `.word .` at 0o1000: every copy sees its own address -/
example : repeatEmit 3 (semList [S.dotWord 0]) 512 = [0, 2, 2, 2, 4, 2] := by decide

/-- a nested repeat with `.even` and `.` equals its unrolling -/
example : emitBlock (semList [S.bytes [1], S.rep 2 [S.even, S.dotWord 0, S.rep 2 [S.bytes [7]]]]) 512
    = emitBlock (semList [S.bytes [1], S.even, S.dotWord 0, S.bytes [7], S.bytes [7], S.even, S.dotWord 0, S.bytes [7], S.bytes [7]]) 512 := by decide

example : NoStop (semList [S.even, S.dotWord 0, S.rep 2 [S.bytes [7]]]) := by
  intro s hs a
  simp [semList] at hs
  rcases hs with h | h | h <;> subst h <;> rfl

example : emitBlock (semList [S.bytes [1, 2], S.end_, S.bytes [3]]) 0 = [1, 2] := by decide
example : (byteDir [1, 255, 0]).run = ⟨.ok [1, 255, 0], {}⟩ := insert_eq_byte [1, 255, 0] (by decide) (by decide)

end Pdpy11.Props.C16

/-! ## one file, however its path is spelled (`devices.resolve_relative_path`, Model.Path) -/

namespace Pdpy11.Props.C16.Paths
open Pdpy11.Model.Path

/-- an ordinary component: a name -/
def Ordinary (c : String) : Prop := c ≠ "" ∧ c ≠ "." ∧ c ≠ ".."

theorem step_skip (abs : Bool) (acc : List String) (c : String) (h : c = "" ∨ c = ".") : step abs acc c = acc := by
  simp [step, h]

theorem step_ord (abs : Bool) (acc : List String) (c : String) (h : Ordinary c) : step abs acc c = c :: acc := by
  obtain ⟨h1, h2, h3⟩ := h
  simp [step, h1, h2, h3]

theorem step_up_ord (abs : Bool) (acc : List String) (d : String) (h : Ordinary d) : step abs (d :: acc) ".." = acc := by
  obtain ⟨_, _, h3⟩ := h
  simp [step, h3]

/-- `./` and doubled slashes anywhere in a path do not change what it names -/
theorem norm_insert_dot (abs : Bool) (a b : List String) (c : String) (h : c = "" ∨ c = ".") :
    normComps abs (a ++ [c] ++ b) = normComps abs (a ++ b) := by
  simp only [normComps, List.foldl_append, List.foldl_cons, List.foldl_nil, step_skip abs _ c h]

/-- `name/../` anywhere in a path does not change what it names -/
theorem norm_insert_updown (abs : Bool) (a b : List String) (d : String) (h : Ordinary d) :
    normComps abs (a ++ [d, ".."] ++ b) = normComps abs (a ++ b) := by
  simp only [normComps, List.foldl_append, List.foldl_cons, List.foldl_nil, step_ord abs _ d h, step_up_ord abs _ d h]

/-- the kept components, top first: names above, then (relative paths only) a run of `..` -/
def CleanS (abs : Bool) : List String → Prop
  | [] => True
  | c :: rest => (Ordinary c ∧ CleanS abs rest) ∨ (c = ".." ∧ abs = false ∧ ∀ x ∈ rest, x = "..")

theorem cleanS_of_all_up (abs : Bool) (l : List String) (ha : abs = false) (h : ∀ x ∈ l, x = "..") : CleanS abs l := by
  induction l with
  | nil => trivial
  | cons c rest ih =>
    right
    exact ⟨h c (by simp), ha, fun x hx => h x (by simp [hx])⟩

theorem step_clean (abs : Bool) (acc : List String) (c : String) (h : CleanS abs acc) : CleanS abs (step abs acc c) := by
  by_cases h1 : c = "" ∨ c = "."
  · rw [step_skip abs acc c h1]; exact h
  · by_cases h2 : c = ".."
    · subst h2
      cases acc with
      | nil =>
        cases abs with
        | true => simp [step, CleanS]
        | false => simp [step, CleanS]
      | cons top rest =>
        by_cases ht : top = ".."
        · subst ht
          have : step abs (".." :: rest) ".." = ".." :: ".." :: rest := by simp [step]
          rw [this]
          rcases h with ⟨ho, _⟩ | ⟨_, ha, hall⟩
          · exact absurd rfl ho.2.2
          · right; exact ⟨rfl, ha, fun x hx => by
              rcases List.mem_cons.mp hx with e | e
              · exact e
              · exact hall x e⟩
        · have : step abs (top :: rest) ".." = rest := by simp [step, ht]
          rw [this]
          rcases h with ⟨_, hr⟩ | ⟨e, _, _⟩
          · exact hr
          · exact absurd e ht
    · have ho : Ordinary c := ⟨fun e => h1 (Or.inl e), fun e => h1 (Or.inr e), h2⟩
      rw [step_ord abs acc c ho]
      left; exact ⟨ho, h⟩

theorem foldl_clean (abs : Bool) (cs acc : List String) (h : CleanS abs acc) : CleanS abs (cs.foldl (step abs) acc) := by
  induction cs generalizing acc with
  | nil => exact h
  | cons c rest ih => exact ih _ (step_clean abs acc c h)

theorem refold (abs : Bool) (s : List String) (h : CleanS abs s) : s.reverse.foldl (step abs) [] = s := by
  induction s with
  | nil => rfl
  | cons c rest ih =>
    simp only [List.reverse_cons, List.foldl_append, List.foldl_cons, List.foldl_nil]
    rcases h with ⟨ho, hr⟩ | ⟨e, ha, hall⟩
    · rw [ih hr, step_ord abs rest c ho]
    · subst e
      rw [ih (cleanS_of_all_up abs rest ha hall)]
      cases rest with
      | nil => simp [step, ha]
      | cons t r =>
        have : t = ".." := hall t (by simp)
        subst this
        simp [step]

/-- **normalising is idempotent**: a resolved path resolves to itself -/
theorem norm_idem (abs : Bool) (cs : List String) : normComps abs (normComps abs cs) = normComps abs cs := by
  unfold normComps
  rw [refold abs _ (foldl_clean abs cs [] trivial)]

/-- a normalised path has no `.`, no empty component, and `..` only in front (relative paths) -/
theorem norm_clean (abs : Bool) (cs : List String) : CleanS abs (normComps abs cs).reverse := by
  unfold normComps
  rw [List.reverse_reverse]
  exact foldl_clean abs cs [] trivial

/-! the spellings the `.once` check uses all name `x.mac` in `/tmp/d` (components of the joined path) -/
example : normComps true ["", "tmp", "d", "sub", "..", "x.mac"] = ["tmp", "d", "x.mac"] := by simp [normComps, step]
example : normComps true ["", "tmp", "d", ".", "sub", "..", ".", "x.mac"] = ["tmp", "d", "x.mac"] := by simp [normComps, step]
example : normComps true ["", "tmp", "d", "sub", "..", "x.mac"] = normComps true ["", "tmp", "d", "x.mac"] :=
  norm_insert_updown true ["", "tmp", "d"] ["x.mac"] "sub" (by simp [Ordinary])
example : normComps false ["..", "a", "..", "..", "b"] = ["..", "..", "b"] := by simp [normComps, step]

end Pdpy11.Props.C16.Paths
