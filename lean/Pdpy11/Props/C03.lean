import Pdpy11.Model.Defs
import Pdpy11.Model.Thunk
import Pdpy11.Props.C11
import Pdpy11.Props.C12
/-
C03  Symbol values do not depend on definition order.

The theorems are about `Scope.lookup` (the lookup the whole-program model calls),
`Scope.define` / `Defs.defineAll` (how the table is built from the source order) and
`Defs.eval` (recursive evaluation through the table): for definitions with distinct names the
table after any permutation of the definitions gives every reference the same definition,
every expression the same value and the same error reports, the duplicate-definition outcome
is the same, and values do not depend on the fuel once there is enough of it.
-/
namespace Pdpy11.Props.C03
open Pdpy11.Model Pdpy11.Model.Defs Pdpy11.Model.Scope Pdpy11.Props.C11

variable {δ : Type}

/-- For definitions with distinct names, a reference finds the same definition after any
permutation of the table. -/
theorem lookup_perm {t t' : List (String × δ)} (hp : t.Perm t') (hn : (t.map Prod.fst).Nodup) (q : String) :
    lookup t' q = lookup t q := by
  induction hp with
  | nil => rfl
  | cons x _ ih =>
    obtain ⟨k, d⟩ := x
    simp only [List.map_cons, List.nodup_cons] at hn
    rw [lookup_cons, lookup_cons, ih hn.2]
  | swap x y l =>
    obtain ⟨k1, d1⟩ := x
    obtain ⟨k2, d2⟩ := y
    simp only [List.map_cons, List.nodup_cons, List.mem_cons, not_or] at hn
    rw [lookup_cons, lookup_cons, lookup_cons, lookup_cons]
    by_cases h1 : k1 = q
    · by_cases h2 : k2 = q
      · exact absurd (h2.trans h1.symm) hn.1.1
      · simp [h1, h2]
    · by_cases h2 : k2 = q <;> simp [h1, h2]
  | trans h1 _ ih1 ih2 =>
    have hn' := (h1.map Prod.fst).nodup_iff.mp hn
    rw [ih2 hn', ih1 hn]

/-- Every expression has the same value and the same error reports after any permutation of
the definitions (chains of any length: the statement is for every fuel). -/
theorem eval_perm {t t' : Table} (hp : t.Perm t') (hn : (t.map Prod.fst).Nodup) (f : Nat) (e : E) :
    eval t' f e = eval t f e := by
  induction f generalizing e with
  | zero => simp [eval]
  | succ f ih =>
    cases e with
    | lit v => simp [eval]
    | ref n => simp only [eval]; rw [lookup_perm hp hn]; cases lookup t n <;> simp [ih]
    | bin op l r => simp only [eval, ih]
    | un op e => simp only [eval, ih]

/-- Moving one definition to any other place of the table. -/
theorem move_definition (a b a' b' : Table) (d : String × E) (h : a ++ b = a' ++ b')
    (hn : ((a ++ d :: b).map Prod.fst).Nodup) (f : Nat) (e : E) :
    eval (a' ++ d :: b') f e = eval (a ++ d :: b) f e := by
  apply eval_perm _ hn
  have h1 : (a ++ d :: b).Perm (d :: (a ++ b)) := List.perm_middle
  have h2 : (a' ++ d :: b').Perm (d :: (a' ++ b')) := List.perm_middle
  rw [← h] at h2
  exact h1.trans h2.symm

/-- More fuel never changes a value: once the fuel suffices for the chain, the value is
independent of it. -/
theorem fuel_mono (t : Table) (f : Nat) (e : E) (r : R) (h : eval t f e = some r) :
    eval t (f + 1) e = some r := by
  induction f generalizing e r with
  | zero => simp [eval] at h
  | succ f ih =>
    cases e with
    | lit v => simpa [eval] using h
    | ref n =>
      simp only [eval] at h ⊢
      cases hl : lookup t n with
      | none => simpa [hl] using h
      | some e' => rw [hl] at h; simpa using ih e' r h
    | bin op l r' =>
      simp only [eval] at h
      cases ha : eval t f l with
      | none => simp [ha] at h
      | some a =>
        cases hb : eval t f r' with
        | none => simp [ha, hb] at h
        | some b =>
          have h1 := ih l a ha
          have h2 := ih r' b hb
          rw [eval, h1, h2]
          simpa [ha, hb] using h
    | un op e' =>
      simp only [eval] at h
      cases ha : eval t f e' with
      | none => simp [ha] at h
      | some a =>
        have h1 := ih e' a ha
        rw [eval, h1]
        simpa [ha] using h

theorem fuel_irrelevant (t : Table) (f g : Nat) (e : E) (r : R) (h : eval t f e = some r) (hg : f ≤ g) :
    eval t g e = some r := by
  induction hg with
  | refl => exact h
  | step _ ih => exact fuel_mono t _ e r ih

/-- Two sufficient amounts of fuel agree. -/
theorem fuel_unique (t : Table) (f g : Nat) (e : E) (r s : R) (h1 : eval t f e = some r) (h2 : eval t g e = some s) :
    r = s := by
  rcases Nat.le_total f g with h | h
  · have := fuel_irrelevant t f g e r h1 h; rw [h2] at this; exact (Option.some.inj this).symm
  · have := fuel_irrelevant t g f e s h2 h; rw [h1] at this; exact Option.some.inj this

/-! ### how the table is built: source order only decides the order of the entries -/

theorem defineAll_spec (t : Table) (defs : List (String × E))
    (hn : ((t ++ defs).map Prod.fst).Nodup) : defineAll t defs = some (t ++ defs) := by
  induction defs generalizing t with
  | nil => simp [defineAll]
  | cons d rest ih =>
    obtain ⟨n, e⟩ := d
    have hnot : n ∉ t.map Prod.fst := by
      intro hmem
      rw [List.map_append, List.nodup_append] at hn
      exact hn.2.2 n hmem n (by simp) rfl
    have hl : lookup t n = none := lookup_none_of_not_mem t n hnot
    simp only [defineAll, define, hl]
    have : ((t ++ [(n, e)] ++ rest).map Prod.fst).Nodup := by simpa using hn
    simpa using ih (t ++ [(n, e)]) this

/-- A second definition of a name is refused wherever it stands. -/
theorem defineAll_dup (t : Table) (defs : List (String × E))
    (hd : ¬ ((t ++ defs).map Prod.fst).Nodup) (ht : (t.map Prod.fst).Nodup) : defineAll t defs = none := by
  induction defs generalizing t with
  | nil => simp at hd; exact absurd ht hd
  | cons d rest ih =>
    obtain ⟨n, e⟩ := d
    by_cases hmem : n ∈ t.map Prod.fst
    · have := lookup_some_of_mem t n hmem
      cases hl : lookup t n with
      | none => simp [hl] at this
      | some x => simp [defineAll, define, hl]
    · have hl : lookup t n = none := lookup_none_of_not_mem t n hmem
      simp only [defineAll, define, hl]
      apply ih
      · simpa using hd
      · rw [List.map_append, List.nodup_append]
        refine ⟨ht, by simp, ?_⟩
        intro a ha b hb
        simp at hb
        subst hb
        intro hab
        exact hmem (hab ▸ ha)

/-- The whole observable result — refused (a duplicate) or the list of emitted values with
their error reports — is the same for every order of the definitions. -/
theorem image_perm (defs defs' : List (String × E)) (hp : defs.Perm defs') (uses : List E) (fuel : Nat) :
    image defs' uses fuel = image defs uses fuel := by
  unfold image
  by_cases hn : (defs.map Prod.fst).Nodup
  · have hn' : (defs'.map Prod.fst).Nodup := (hp.map Prod.fst).nodup_iff.mp hn
    rw [defineAll_spec [] defs (by simpa using hn), defineAll_spec [] defs' (by simpa using hn')]
    simp only [List.nil_append]
    congr 1
    apply List.map_congr_left
    intro e _
    exact eval_perm hp hn fuel e
  · have hn' : ¬ (defs'.map Prod.fst).Nodup := fun h => hn ((hp.map Prod.fst).nodup_iff.mpr h)
    rw [defineAll_dup [] defs (by simpa using hn) (by simp), defineAll_dup [] defs' (by simpa using hn') (by simp)]

/-! ### chains of any length -/

/-- `x0 = c`, `x1 = x0 + 1`, …, written as names `"0"`, `"1"`, … (any injective naming would do) -/
def chainName (i : Nat) : String := String.ofList (Scope.digits i)

def chain (c : Int) : Nat → Table
  | 0 => [(chainName 0, .lit c)]
  | n + 1 => chain c n ++ [(chainName (n + 1), .bin "add" (.ref (chainName n)) (.lit 1))]

theorem lookup_append_of_some (t u : List (String × δ)) (q : String) (d : δ) (h : lookup t q = some d) :
    lookup (t ++ u) q = some d := by
  induction t with
  | nil => simp [lookup] at h
  | cons a t ih =>
    obtain ⟨k, x⟩ := a
    rw [List.cons_append, lookup_cons]
    rw [lookup_cons] at h
    by_cases hk : k = q
    · simpa [hk] using h
    · simp only [hk, if_false] at h ⊢
      exact ih h

/-- Adding definitions (of any names) does not change a value that was computed without an
error report: later definitions cannot capture a reference that already has a definition. -/
theorem eval_append_of_ok (t u : Table) (f : Nat) (e : E) (r : R) (h : eval t f e = some r) (hr : r.errs = []) :
    eval (t ++ u) f e = some r := by
  induction f generalizing e r with
  | zero => simp [eval] at h
  | succ f ih =>
    cases e with
    | lit v => simpa [eval] using h
    | ref n =>
      simp only [eval] at h ⊢
      cases hl : lookup t n with
      | some e' => rw [hl] at h; rw [lookup_append_of_some t u n e' hl]; exact ih e' r h hr
      | none =>
        rw [hl] at h
        have := Option.some.inj h
        subst this
        simp at hr
    | bin op l r' =>
      simp only [eval] at h
      cases ha : eval t f l with
      | none => simp [ha] at h
      | some a =>
        cases hb : eval t f r' with
        | none => simp [ha, hb] at h
        | some b =>
          rw [ha, hb] at h
          have hab : a.errs = [] ∧ b.errs = [] := by
            cases ho : Ops.binop op a.val b.val with
            | none => simp [ho] at h; subst h; simp at hr
            | some p =>
              obtain ⟨v, er⟩ := p
              simp [ho] at h; subst h
              simp at hr
              exact ⟨hr.1, hr.2.1⟩
          rw [eval, ih l a ha hab.1, ih r' b hb hab.2]
          exact h
    | un op e' =>
      simp only [eval] at h
      cases ha : eval t f e' with
      | none => simp [ha] at h
      | some a =>
        rw [ha] at h
        have haa : a.errs = [] := by
          cases ho : Ops.unop op a.val with
          | none => simp [ho] at h; subst h; simp at hr
          | some p =>
            obtain ⟨v, er⟩ := p
            simp [ho] at h; subst h
            simp at hr
            exact hr.1
        rw [eval, ih e' a ha haa]
        exact h

theorem chainName_injective (i j : Nat) (h : chainName i = chainName j) : i = j := by
  unfold chainName at h
  have := congrArg String.toList h
  simp at this
  exact Pdpy11.Props.C11.digits_injective i j this

theorem chain_names (c : Int) (n : Nat) (q : String) (h : q ∈ (chain c n).map Prod.fst) : ∃ i, i ≤ n ∧ q = chainName i := by
  induction n with
  | zero => simp [chain] at h; exact ⟨0, Nat.le_refl _, h⟩
  | succ n ih =>
    simp only [chain, List.map_append, List.mem_append, List.map_cons, List.map_nil, List.mem_singleton] at h
    rcases h with h | h
    · obtain ⟨i, hi, hq⟩ := ih h
      exact ⟨i, Nat.le_succ_of_le hi, hq⟩
    · exact ⟨n + 1, Nat.le_refl _, h⟩

/-- A chain of additive definitions of any length `n` evaluates to `c + n`, with fuel `2n + 2`. -/
theorem chain_value (c : Int) (n : Nat) :
    eval (chain c n) (2 * n + 2) (.ref (chainName n)) = some ⟨c + n, []⟩ := by
  induction n with
  | zero => simp [chain, eval, lookup_cons]
  | succ n ih =>
    have hnew : lookup (chain c n) (chainName (n + 1)) = none := by
      apply lookup_none_of_not_mem
      intro hmem
      obtain ⟨i, hi, hq⟩ := chain_names c n _ hmem
      have := chainName_injective _ _ hq
      omega
    have hl : lookup (chain c (n + 1)) (chainName (n + 1)) = some (.bin "add" (.ref (chainName n)) (.lit 1)) := by
      simp only [chain]
      unfold lookup at hnew ⊢
      rw [List.find?_append]
      cases hf : List.find? (fun e => e.1 == chainName (n + 1)) (chain c n) with
      | some x => simp [hf] at hnew
      | none => simp [List.find?]
    have hprev := eval_append_of_ok (chain c n) [(chainName (n + 1), .bin "add" (.ref (chainName n)) (.lit 1))] _ _ _ ih rfl
    have h2 : 2 * (n + 1) + 2 = (2 * n + 2 + 1) + 1 := by omega
    rw [h2, eval, hl]
    simp only []
    rw [eval]
    have hp2 : eval (chain c (n + 1)) (2 * n + 2) (.ref (chainName n)) = some ⟨c + n, []⟩ := hprev
    have hlit : eval (chain c (n + 1)) (2 * n + 2) (.lit 1) = some ⟨1, []⟩ := by
      have : 2 * n + 2 = (2 * n + 1) + 1 := by omega
      rw [this, eval]
    rw [hp2, hlit]
    simp [Ops.binop]
    omega

/-- the same chain with its definitions in any order -/
theorem chain_value_any_order (c : Int) (n : Nat) (t' : Table) (hp : (chain c n).Perm t')
    (hn : ((chain c n).map Prod.fst).Nodup) :
    eval t' (2 * n + 2) (.ref (chainName n)) = some ⟨c + n, []⟩ := by
  rw [eval_perm hp hn, chain_value]

/-! ### the statements are not vacuous -/

/-- two files' worth of definitions in two orders, used forwards and backwards, with a non-linear
operator and an undefined name -/
example :
    image [("a", .bin "mul" (.ref "b") (.lit 3)), ("b", .bin "add" (.ref "c") (.lit 1)), ("c", .lit 5)]
      [.ref "a", .bin "div" (.ref "a") (.ref "zz")] 20
    = some [some ⟨18, []⟩, some ⟨0, ["undefined-symbol", "arithmetic-error"]⟩] := by decide

example :
    image [("c", .lit 5), ("a", .bin "mul" (.ref "b") (.lit 3)), ("b", .bin "add" (.ref "c") (.lit 1))]
      [.ref "a", .bin "div" (.ref "a") (.ref "zz")] 20
    = some [some ⟨18, []⟩, some ⟨0, ["undefined-symbol", "arithmetic-error"]⟩] := by decide

/-- a second definition is refused in both orders -/
example : image [("a", .lit 1), ("b", .lit 2), ("a", .lit 3)] [.ref "a"] 9 = none
    ∧ image [("a", .lit 3), ("a", .lit 1), ("b", .lit 2)] [.ref "a"] 9 = none := by decide

/-- a cycle runs out of any fuel -/
example : eval [("a", .ref "b"), ("b", .ref "a")] 50 (.ref "a") = none := by decide

/-! ## second part -/
open Pdpy11.Model Pdpy11.Model.Defs Pdpy11.Model.Scope

/-- every reference in `e` to a name the table defines has rank below `k` -/
def RefsBelow (t : Table) (rk : String → Nat) (k : Nat) : E → Prop
  | .lit _ => True
  | .ref n => (lookup t n).isSome → rk n < k
  | .bin _ l r => RefsBelow t rk k l ∧ RefsBelow t rk k r
  | .un _ e => RefsBelow t rk k e

/-- the table is acyclic: a rank decreases along every reference; `S` bounds the body sizes -/
def Acyclic (t : Table) (rk : String → Nat) (S : Nat) : Prop :=
  ∀ n body, lookup t n = some body → RefsBelow t rk (rk n) body ∧ body.size ≤ S

theorem refsBelow_mono (t : Table) (rk : String → Nat) (k k' : Nat) (h : k ≤ k') (e : E) (hb : RefsBelow t rk k e) :
    RefsBelow t rk k' e := by
  induction e with
  | lit v => trivial
  | ref n => intro hs; exact Nat.lt_of_lt_of_le (hb hs) h
  | bin op l r ihl ihr => exact ⟨ihl hb.1, ihr hb.2⟩
  | un op e ih => exact ih hb

theorem size_pos (e : E) : 0 < e.size := by cases e <;> simp [E.size] <;> omega

theorem eval_bin_isSome (t : Table) (f : Nat) (op : String) (l r : E) (h1 : (eval t f l).isSome) (h2 : (eval t f r).isSome) :
    (eval t (f + 1) (.bin op l r)).isSome := by
  cases ha : eval t f l with
  | none => simp [ha] at h1
  | some a =>
    cases hb : eval t f r with
    | none => simp [hb] at h2
    | some b =>
      simp only [eval, ha, hb]
      cases Ops.binop op a.val b.val with
      | none => rfl
      | some p => rfl

theorem eval_un_isSome (t : Table) (f : Nat) (op : String) (e : E) (h1 : (eval t f e).isSome) :
    (eval t (f + 1) (.un op e)).isSome := by
  cases ha : eval t f e with
  | none => simp [ha] at h1
  | some a =>
    simp only [eval, ha]
    cases Ops.unop op a.val with
    | none => rfl
    | some p => rfl

/-- with fuel `size e + k·(S+1)` every expression whose defined references rank below `k` gets a
value (possibly with error reports) -/
theorem eval_some_of_rank (t : Table) (rk : String → Nat) (S : Nat) (hac : Acyclic t rk S) (k : Nat) :
    ∀ e, RefsBelow t rk k e → ∀ f, e.size + k * (S + 1) ≤ f → (eval t f e).isSome := by
  induction k with
  | zero =>
    intro e
    induction e with
    | lit v => intro _ f hf; cases f with | zero => simp [E.size] at hf | succ f => simp [eval]
    | ref n =>
      intro hb f hf
      cases f with
      | zero => simp [E.size] at hf
      | succ f =>
        simp only [eval]
        cases hl : lookup t n with
        | none => simp
        | some body => have := hb (by simp [hl]); omega
    | bin op l r ihl ihr =>
      intro hb f hf
      cases f with
      | zero => simp [E.size] at hf
      | succ f =>
        simp only [E.size] at hf
        exact eval_bin_isSome t f op l r (ihl hb.1 f (by omega)) (ihr hb.2 f (by omega))
    | un op e ih =>
      intro hb f hf
      cases f with
      | zero => simp [E.size] at hf
      | succ f =>
        simp only [E.size] at hf
        exact eval_un_isSome t f op e (ih hb f (by omega))
  | succ k ihk =>
    intro e
    induction e with
    | lit v => intro _ f hf; cases f with | zero => simp [E.size] at hf | succ f => simp [eval]
    | ref n =>
      intro hb f hf
      cases f with
      | zero => simp [E.size] at hf
      | succ f =>
        simp only [eval]
        cases hl : lookup t n with
        | none => simp
        | some body =>
          have hrk : rk n < k + 1 := hb (by simp [hl])
          have ⟨hrefs, hsz⟩ := hac n body hl
          have hrefs' : RefsBelow t rk k body := refsBelow_mono t rk (rk n) k (by omega) body hrefs
          apply ihk body hrefs' f
          simp only [E.size] at hf
          have : (k + 1) * (S + 1) = k * (S + 1) + (S + 1) := by rw [Nat.succ_mul]
          omega
    | bin op l r ihl ihr =>
      intro hb f hf
      cases f with
      | zero => simp [E.size] at hf
      | succ f =>
        simp only [E.size] at hf
        exact eval_bin_isSome t f op l r (ihl hb.1 f (by omega)) (ihr hb.2 f (by omega))
    | un op e ih =>
      intro hb f hf
      cases f with
      | zero => simp [E.size] at hf
      | succ f =>
        simp only [E.size] at hf
        exact eval_un_isSome t f op e (ih hb f (by omega))

/-- **Enough fuel exists for every acyclic table.** If the ranks are bounded by `R` and the bodies
by `S`, fuel `size e + (R+1)·(S+1)` gives every expression a value; by `fuel_unique` that value is
the value for every larger fuel. Hence `none` (out of fuel) at that fuel means the definitions are
cyclic. -/
theorem fuel_enough (t : Table) (rk : String → Nat) (R S : Nat) (hac : Acyclic t rk S) (hR : ∀ n, rk n ≤ R) (e : E) :
    (eval t (e.size + (R + 1) * (S + 1)) e).isSome := by
  apply eval_some_of_rank t rk S hac (R + 1) e _ _ (Nat.le_refl _)
  -- every reference ranks below R + 1
  clear hac
  induction e with
  | lit v => trivial
  | ref n => intro _; have := hR n; omega
  | bin op l r ihl ihr => exact ⟨ihl, ihr⟩
  | un op e ih => exact ih

/-- contrapositive: no value at that fuel ⇒ the table is not acyclic for any rank bounded by `R` -/
theorem out_of_fuel_means_cycle (t : Table) (R S : Nat) (e : E) (h : eval t (e.size + (R + 1) * (S + 1)) e = none) :
    ¬ ∃ rk : String → Nat, Acyclic t rk S ∧ ∀ n, rk n ≤ R := by
  rintro ⟨rk, hac, hR⟩
  have := fuel_enough t rk R S hac hR e
  simp [h] at this


/-! ### the lazy engine's arithmetic (`deferred.LinearPolynomial`, Model.Poly) -/

open Pdpy11.Model.Poly Pdpy11.Props.C12.LinPoly in
/-- **whatever was defined first**: two moments of an assembly (or two assemblies of the same
definitions in a different order) know different things about the variables; if both arrive
at a number for the same symbolic value, it is the same number — the arithmetic value -/
theorem lazy_value_order_independent (env : Var → Int) (σ₁ σ₂ : Known)
    (h1 : Consistent env σ₁) (h2 : Consistent env σ₂) (f₁ f₂ : Nat) (p : P) (k₁ k₂ : Int)
    (e1 : waitP σ₁ f₁ p = .value k₁) (e2 : waitP σ₂ f₂ p = .value k₂) : k₁ = k₂ ∧ k₁ = evalP env p :=
  ⟨waitP_deterministic env σ₁ σ₂ h1 h2 f₁ f₂ p k₁ k₂ e1 e2, (waitP_sound env σ₁ h1 f₁ p k₁ e1).symm⟩

end Pdpy11.Props.C03

/-! ## `deferred.Deferred`: remembered values and remembered give-ups (Model.Thunk) -/

namespace Pdpy11.Props.C03.Memo
open Pdpy11.Model.Thunk

/-- same promises, same bodies, same epoch: the memories may differ -/
def SameMeaning (s s' : Store) : Prop :=
  s'.promises = s.promises ∧ s'.thunks.map (·.fn) = s.thunks.map (·.fn) ∧ s'.epoch = s.epoch

theorem SameMeaning.refl (s : Store) : SameMeaning s s := ⟨rfl, rfl, rfl⟩
theorem SameMeaning.trans {a b c : Store} (h1 : SameMeaning a b) (h2 : SameMeaning b c) : SameMeaning a c :=
  ⟨h2.1.trans h1.1, h2.2.1.trans h1.2.1, h2.2.2.trans h1.2.2⟩

theorem fn_of_same {s s' : Store} (h : SameMeaning s s') (j : Nat) :
    (s'.thunks[j]?).map (·.fn) = (s.thunks[j]?).map (·.fn) := by
  have := congrArg (fun l => l[j]?) h.2.1
  simpa [List.getElem?_map] using this

theorem plain_same {s s' : Store} (h : SameMeaning s s') (f : Nat) (e : E) : evalPlain s' f e = evalPlain s f e := by
  induction f generalizing e with
  | zero => rfl
  | succ f ih =>
    cases e with
    | lit k => rfl
    | prom i => simp [evalPlain, promVal, h.1]
    | thunk j =>
      simp only [evalPlain]
      have hj := fn_of_same h j
      cases h1 : s'.thunks[j]? with
      | none => cases h2 : s.thunks[j]? with
        | none => rfl
        | some t => rw [h1, h2] at hj; cases hj
      | some t' => cases h2 : s.thunks[j]? with
        | none => rw [h1, h2] at hj; cases hj
        | some t =>
          rw [h1, h2] at hj
          have : t'.fn = t.fn := by simpa using hj
          simp [this, ih]
    | add a b => simp [evalPlain, ih]

/-- more fuel never changes a result that is not "out of fuel" -/
theorem plain_mono (s : Store) (f : Nat) (e : E) (r : Res) (h : evalPlain s f e = r) (hr : r ≠ .fuel) :
    evalPlain s (f + 1) e = r := by
  induction f generalizing e r with
  | zero => simp [evalPlain] at h; exact absurd h.symm hr
  | succ f ih =>
    cases e with
    | lit k => simpa [evalPlain] using h
    | prom i => simpa [evalPlain] using h
    | thunk j =>
      simp only [evalPlain] at h ⊢
      cases hj : s.thunks[j]? with
      | none => simpa [hj] using h
      | some t => rw [hj] at h; simp only at h ⊢; exact ih _ _ h hr
    | add a b =>
      simp only [evalPlain] at h
      rw [show evalPlain s (f + 1 + 1) (.add a b) = (match evalPlain s (f + 1) a with
        | .value x => (match evalPlain s (f + 1) b with
          | .value y => .value (x + y)
          | r => r)
        | r => r) from rfl]
      cases ha : evalPlain s f a with
      | fuel => rw [ha] at h; exact absurd h.symm hr
      | notReady => rw [ha] at h; rw [ih a _ ha (by simp)]; exact h
      | value x =>
        rw [ha] at h; rw [ih a _ ha (by simp)]
        simp only at h ⊢
        cases hb : evalPlain s f b with
        | fuel => rw [hb] at h; exact absurd h.symm hr
        | notReady => rw [hb] at h; rw [ih b _ hb (by simp)]; exact h
        | value y => rw [hb] at h; rw [ih b _ hb (by simp)]; exact h

theorem plain_mono_le (s : Store) (f g : Nat) (e : E) (r : Res) (h : evalPlain s f e = r) (hr : r ≠ .fuel) (hfg : f ≤ g) :
    evalPlain s g e = r := by
  induction g with
  | zero => have : f = 0 := by omega
            subst this; exact h
  | succ g ih =>
    by_cases hle : f ≤ g
    · exact plain_mono s g e r (ih hle) hr
    · have : f = g + 1 := by omega
      subst this; exact h

/-- the meaning is a function: two runs with any amounts of fuel cannot give two different answers -/
theorem plain_unique (s : Store) (f g : Nat) (e : E) (r1 r2 : Res) (h1 : evalPlain s f e = r1) (h2 : evalPlain s g e = r2)
    (n1 : r1 ≠ .fuel) (n2 : r2 ≠ .fuel) : r1 = r2 := by
  have a := plain_mono_le s f (max f g) e r1 h1 n1 (Nat.le_max_left _ _)
  have b := plain_mono_le s g (max f g) e r2 h2 n2 (Nat.le_max_right _ _)
  rw [a] at b; exact b

def NoValue (s : Store) (e : E) : Prop := ∀ f k, evalPlain s f e ≠ .value k

/-- what the two memories of every thunk must say -/
def Inv (s : Store) : Prop :=
  ∀ (j : Nat) (t : Th), s.thunks[j]? = some t →
    (∀ v, t.value = some v → ∃ f, evalPlain s f t.fn = .value v) ∧
    (t.nrEpoch = some s.epoch → NoValue s t.fn) ∧
    (∀ ep, t.nrEpoch = some ep → ep ≤ s.epoch)


theorem same_setThunk (s : Store) (j : Nat) (t t' : Th) (hj : s.thunks[j]? = some t) (hfn : t'.fn = t.fn) :
    SameMeaning s (setThunk s j t') := by
  refine ⟨rfl, ?_, rfl⟩
  simp only [setThunk]
  apply List.ext_getElem?
  intro n
  simp only [List.getElem?_map, List.getElem?_set]
  by_cases h : j = n
  · subst h
    simp only [↓reduceIte]
    split
    · simp [hj, hfn]
    · rename_i hlt
      have : j < s.thunks.length := by
        have := List.getElem?_eq_some_iff.mp hj
        exact this.1
      exact absurd this hlt
  · simp [h]

theorem noValue_same {s s' : Store} (h : SameMeaning s s') (e : E) (hn : NoValue s e) : NoValue s' e := by
  intro f k; rw [plain_same h]; exact hn f k

theorem inv_setThunk (s : Store) (j : Nat) (t t' : Th) (hI : Inv s) (hj : s.thunks[j]? = some t) (hfn : t'.fn = t.fn)
    (hv : ∀ v, t'.value = some v → ∃ f, evalPlain s f t'.fn = .value v)
    (hn : t'.nrEpoch = some s.epoch → NoValue s t'.fn)
    (he : ∀ ep, t'.nrEpoch = some ep → ep ≤ s.epoch) : Inv (setThunk s j t') := by
  have hs := same_setThunk s j t t' hj hfn
  intro j' t'' hj'
  have hep : (setThunk s j t').epoch = s.epoch := rfl
  simp only [setThunk, List.getElem?_set] at hj'
  by_cases h : j = j'
  · subst h
    simp only [↓reduceIte] at hj'
    split at hj'
    · cases hj'
      refine ⟨?_, ?_, ?_⟩
      · intro v hvv; obtain ⟨f, hf⟩ := hv v hvv; exact ⟨f, by rw [plain_same hs]; exact hf⟩
      · intro hne; rw [hep] at hne; exact noValue_same hs _ (hn hne)
      · intro ep h1; rw [hep]; exact he ep h1
    · cases hj'
  · simp only [h, ↓reduceIte] at hj'
    obtain ⟨a, b, c⟩ := hI j' t'' hj'
    refine ⟨?_, ?_, ?_⟩
    · intro v hvv; obtain ⟨f, hf⟩ := a v hvv; exact ⟨f, by rw [plain_same hs]; exact hf⟩
    · intro hne; rw [hep] at hne; exact noValue_same hs _ (b hne)
    · intro ep h1; rw [hep]; exact c ep h1

theorem thunk_of_same {s s1 : Store} (h : SameMeaning s s1) (j : Nat) (t : Th) (hj : s.thunks[j]? = some t) :
    ∃ t1, s1.thunks[j]? = some t1 ∧ t1.fn = t.fn := by
  have := fn_of_same h j
  rw [hj] at this
  cases h1 : s1.thunks[j]? with
  | none => rw [h1] at this; cases this
  | some t1 => rw [h1] at this; exact ⟨t1, rfl, by simpa using this⟩

/-- **the two memories never lie**: whatever `Deferred._wait` answers with its remembered values
and its remembered give-ups, the engine without any memory answers too; and the memories stay
truthful afterwards -/
theorem memo_sound (f : Nat) : ∀ (s : Store) (e : E), Inv s →
    SameMeaning s (evalMemo s f e).2 ∧ Inv (evalMemo s f e).2 ∧
    (∀ k, (evalMemo s f e).1 = .value k → ∃ g, evalPlain s g e = .value k) ∧
    ((evalMemo s f e).1 = .notReady → NoValue s e) := by
  induction f with
  | zero => intro s e hI; exact ⟨SameMeaning.refl s, hI, by simp [evalMemo], by simp [evalMemo]⟩
  | succ f ih =>
    intro s e hI
    cases e with
    | lit k =>
      refine ⟨SameMeaning.refl s, hI, ?_, by simp [evalMemo]⟩
      intro k' h; simp [evalMemo] at h; subst h; exact ⟨1, rfl⟩
    | prom i =>
      simp only [evalMemo]
      cases hp : promVal s i with
      | none =>
        refine ⟨SameMeaning.refl s, hI, by simp, ?_⟩
        intro _ g k
        cases g with
        | zero => simp [evalPlain]
        | succ g => simp [evalPlain, hp]
      | some v =>
        refine ⟨SameMeaning.refl s, hI, ?_, by simp⟩
        intro k h; simp at h; subst h; exact ⟨1, by simp [evalPlain, hp]⟩
    | thunk j =>
      simp only [evalMemo]
      cases hj : s.thunks[j]? with
      | none =>
        refine ⟨SameMeaning.refl s, hI, by simp, ?_⟩
        intro _ g k
        cases g with
        | zero => simp [evalPlain]
        | succ g => simp [evalPlain, hj]
      | some t =>
        obtain ⟨tv, tn, te⟩ := hI j t hj
        simp only
        cases hval : t.value with
        | some v =>
          refine ⟨SameMeaning.refl s, hI, ?_, by simp⟩
          intro k h; simp at h; subst h
          obtain ⟨g, hg⟩ := tv v hval
          exact ⟨g + 1, by simp [evalPlain, hj, hg]⟩
        | none =>
          simp only
          split
          · rename_i hne
            refine ⟨SameMeaning.refl s, hI, by simp, ?_⟩
            intro _ g k
            cases g with
            | zero => simp [evalPlain]
            | succ g => simp only [evalPlain, hj]; exact tn hne g k
          · obtain ⟨hs1, hI1, hv1, hn1⟩ := ih s t.fn hI
            generalize hres : evalMemo s f t.fn = res at *
            obtain ⟨r, s1⟩ := res
            simp only at hs1 hI1 hv1 hn1 ⊢
            obtain ⟨t1, ht1, hfn1⟩ := thunk_of_same hs1 j t hj
            cases r with
            | fuel => exact ⟨hs1, hI1, by simp, by simp⟩
            | value v =>
              simp only [ht1, Option.getD_some]
              obtain ⟨a1, b1, c1⟩ := hI1 j t1 ht1
              obtain ⟨g, hg⟩ := hv1 v rfl
              have hset := same_setThunk s1 j t1 { t1 with value := some v } ht1 rfl
              refine ⟨hs1.trans hset, ?_, ?_, by simp⟩
              · refine inv_setThunk s1 j t1 { t1 with value := some v } hI1 ht1 rfl ?_ ?_ ?_
                · intro v' hv'
                  simp at hv'; subst hv'
                  exact ⟨g, by rw [plain_same hs1, hfn1]; exact hg⟩
                · exact b1
                · exact c1
              · intro k h; simp at h; subst h
                exact ⟨g + 1, by simp [evalPlain, hj, hg]⟩
            | notReady =>
              simp only [ht1, Option.getD_some]
              obtain ⟨a1, b1, c1⟩ := hI1 j t1 ht1
              have hnv := hn1 rfl
              have hset := same_setThunk s1 j t1 { t1 with nrEpoch := some s1.epoch } ht1 rfl
              refine ⟨hs1.trans hset, ?_, by simp, ?_⟩
              · refine inv_setThunk s1 j t1 { t1 with nrEpoch := some s1.epoch } hI1 ht1 rfl ?_ ?_ ?_
                · exact a1
                · intro _; simp only; rw [hfn1]; exact noValue_same hs1 _ hnv
                · intro ep h; simp at h; omega
              · intro _ g k
                cases g with
                | zero => simp [evalPlain]
                | succ g => simp only [evalPlain, hj]; exact hnv g k
    | add a b =>
      simp only [evalMemo]
      obtain ⟨hs1, hI1, hv1, hn1⟩ := ih s a hI
      generalize hres : evalMemo s f a = res at *
      obtain ⟨r, s1⟩ := res
      simp only at hs1 hI1 hv1 hn1 ⊢
      have noval_left : NoValue s a → NoValue s (.add a b) := by
        intro hn g k
        cases g with
        | zero => simp [evalPlain]
        | succ g =>
          simp only [evalPlain]
          cases ha : evalPlain s g a with
          | value x => exact absurd ha (hn g x)
          | notReady => simp
          | fuel => simp
      cases r with
      | fuel => exact ⟨hs1, hI1, by simp, by simp⟩
      | notReady => exact ⟨hs1, hI1, by simp, fun _ => noval_left (hn1 rfl)⟩
      | value x =>
        simp only
        obtain ⟨hs2, hI2, hv2, hn2⟩ := ih s1 b hI1
        generalize hres2 : evalMemo s1 f b = res2 at *
        obtain ⟨r2, s2⟩ := res2
        simp only at hs2 hI2 hv2 hn2 ⊢
        obtain ⟨ga, hga⟩ := hv1 x rfl
        cases r2 with
        | fuel => exact ⟨hs1.trans hs2, hI2, by simp, by simp⟩
        | notReady =>
          refine ⟨hs1.trans hs2, hI2, by simp, ?_⟩
          intro _ g k
          have hnb : NoValue s b := by
            intro g' k'; rw [← plain_same hs1]; exact hn2 rfl g' k'
          cases g with
          | zero => simp [evalPlain]
          | succ g =>
            simp only [evalPlain]
            cases ha : evalPlain s g a with
            | value x' =>
              simp only
              cases hb : evalPlain s g b with
              | value y => exact absurd hb (hnb g y)
              | notReady => simp
              | fuel => simp
            | notReady => simp
            | fuel => simp
        | value y =>
          refine ⟨hs1.trans hs2, hI2, ?_, by simp⟩
          intro k h; simp at h; subst h
          obtain ⟨gb, hgb⟩ := hv2 y rfl
          rw [plain_same hs1] at hgb
          refine ⟨max ga gb + 1, ?_⟩
          simp only [evalPlain]
          rw [plain_mono_le s ga _ a _ hga (by simp) (Nat.le_max_left _ _),
              plain_mono_le s gb _ b _ hgb (by simp) (Nat.le_max_right _ _)]


/-! ### settling a promise -/

theorem promVal_settle_other (s : Store) (i : Nat) (k : Int) (i' : Nat) (x : Int) (hu : promVal s i = none)
    (h : promVal s i' = some x) : promVal (settle s i k) i' = some x := by
  have hne : i ≠ i' := by intro e; subst e; rw [hu] at h; cases h
  simp only [promVal, settle, List.getElem?_set, hne, ↓reduceIte] at h ⊢
  exact h

/-- a value, once it exists, survives every later settlement (promises are settled once) -/
theorem plain_settle_value (s : Store) (i : Nat) (k : Int) (hu : promVal s i = none) (f : Nat) (e : E) (v : Int)
    (h : evalPlain s f e = .value v) : evalPlain (settle s i k) f e = .value v := by
  induction f generalizing e v with
  | zero => simp [evalPlain] at h
  | succ f ih =>
    cases e with
    | lit x => simpa [evalPlain] using h
    | prom i' =>
      simp only [evalPlain] at h ⊢
      cases hp : promVal s i' with
      | none => rw [hp] at h; cases h
      | some x => rw [hp] at h; rw [promVal_settle_other s i k i' x hu hp]; exact h
    | thunk j =>
      simp only [evalPlain] at h ⊢
      have : (settle s i k).thunks = s.thunks := rfl
      rw [this]
      cases hj : s.thunks[j]? with
      | none => rw [hj] at h; cases h
      | some t => rw [hj] at h; exact ih _ _ h
    | add a b =>
      simp only [evalPlain] at h ⊢
      cases ha : evalPlain s f a with
      | fuel => rw [ha] at h; cases h
      | notReady => rw [ha] at h; cases h
      | value x =>
        rw [ha] at h; rw [ih a x ha]
        simp only at h ⊢
        cases hb : evalPlain s f b with
        | fuel => rw [hb] at h; cases h
        | notReady => rw [hb] at h; cases h
        | value y => rw [hb] at h; rw [ih b y hb]; exact h

/-- settling a promise bumps the epoch: every remembered give-up becomes stale, every
remembered value stays true -/
theorem inv_settle (s : Store) (i : Nat) (k : Int) (hu : promVal s i = none) (hI : Inv s) : Inv (settle s i k) := by
  intro j t hj
  have : (settle s i k).thunks = s.thunks := rfl
  rw [this] at hj
  obtain ⟨a, _, c⟩ := hI j t hj
  refine ⟨?_, ?_, ?_⟩
  · intro v hv; obtain ⟨f, hf⟩ := a v hv; exact ⟨f, plain_settle_value s i k hu f _ v hf⟩
  · intro hne
    have := c _ hne
    simp [settle] at this
    omega
  · intro ep hep; have := c ep hep; simp [settle]; omega

/-! ### every history of speculative waits and settlements -/

inductive Op
  | wait (e : E)
  | settle (i : Nat) (k : Int)

/-- one step of a run; a promise that is already settled is not settled again (the code asserts it) -/
def step (f : Nat) (s : Store) : Op → Store
  | .wait e => (evalMemo s f e).2
  | .settle i k => if promVal s i = none then settle s i k else s

theorem inv_step (f : Nat) (s : Store) (op : Op) (hI : Inv s) : Inv (step f s op) := by
  cases op with
  | wait e => exact (memo_sound f s e hI).2.1
  | settle i k =>
    simp only [step]
    split
    · rename_i hu; exact inv_settle s i k hu hI
    · exact hI

theorem inv_run (f : Nat) (s : Store) (ops : List Op) (hI : Inv s) : Inv (ops.foldl (step f) s) := by
  induction ops generalizing s with
  | nil => exact hI
  | cons op rest ih => exact ih _ (inv_step f s op hI)

/-- a store in which nothing is remembered yet -/
theorem inv_fresh (ps : List (Option Int)) (bodies : List E) (ep : Nat) :
    Inv ⟨ps, bodies.map (fun b => ⟨b, none, none⟩), ep⟩ := by
  intro j t hj
  simp only [List.getElem?_map] at hj
  cases hb : bodies[j]? with
  | none => rw [hb] at hj; cases hj
  | some b =>
    rw [hb] at hj; cases hj
    exact ⟨by simp, by simp, by simp⟩

/-- **after any history** of speculative waits and settlements, starting with empty memories,
the answer of a further wait is the answer of the engine without memory on the promises as
they now are: a number is *the* value, "not ready" means no amount of work gives a value -/
theorem wait_after_any_history (f : Nat) (ps : List (Option Int)) (bodies : List E) (ep : Nat) (ops : List Op) (e : E) :
    let s := ops.foldl (step f) ⟨ps, bodies.map (fun b => ⟨b, none, none⟩), ep⟩
    (∀ k, (evalMemo s f e).1 = .value k → ∃ g, evalPlain s g e = .value k) ∧
    ((evalMemo s f e).1 = .notReady → NoValue s e) := by
  intro s
  have hI : Inv s := inv_run f _ ops (inv_fresh ps bodies ep)
  exact ⟨(memo_sound f s e hI).2.2.1, (memo_sound f s e hI).2.2.2⟩

/-- … and a number answered once is answered ever after, whatever is settled in between -/
theorem answer_is_final (f : Nat) (s : Store) (hI : Inv s) (e : E) (v : Int) (h : (evalMemo s f e).1 = .value v)
    (i : Nat) (k : Int) (hu : promVal (evalMemo s f e).2 i = none) (f' : Nat) (w : Int)
    (h' : (evalMemo (settle (evalMemo s f e).2 i k) f' e).1 = .value w) : w = v := by
  obtain ⟨hs, hI1, hv, _⟩ := memo_sound f s e hI
  obtain ⟨g, hg⟩ := hv v h
  have hg1 : evalPlain (evalMemo s f e).2 g e = .value v := by rw [plain_same hs]; exact hg
  have hg2 := plain_settle_value _ i k hu g e v hg1
  obtain ⟨_, _, hv2, _⟩ := memo_sound f' _ e (inv_settle _ i k hu hI1)
  obtain ⟨g', hg'⟩ := hv2 w h'
  have := plain_unique _ g g' e _ _ hg2 hg' (by simp) (by simp)
  cases this; rfl

/-! non-vacuity: thunk 1 = thunk 0 + 5, thunk 0 = promise 0 + 1; a give-up is remembered, becomes
stale when the promise is settled, and the value is then found and remembered -/
example :
    let s0 : Store := ⟨[none], [⟨.add (.prom 0) (.lit 1), none, none⟩, ⟨.add (.thunk 0) (.lit 5), none, none⟩], 7⟩
    let r1 := evalMemo s0 9 (.thunk 1)
    let s2 := settle r1.2 0 10
    let r3 := evalMemo s2 9 (.thunk 1)
    r1.1 = .notReady ∧ (r1.2.thunks.map (·.nrEpoch)) = [some 7, some 7] ∧
    (evalMemo r1.2 9 (.thunk 1)).1 = .notReady ∧
    r3.1 = .value 16 ∧ (r3.2.thunks.map (·.value)) = [some 11, some 16] := by decide

end Pdpy11.Props.C03.Memo
