import Pdpy11.Model.Defs
import Pdpy11.Props.C11
import Pdpy11.Props.C12
/-
C03  Symbol values do not depend on definition order.

The theorems are about `Scope.lookup` (the lookup the whole-program model calls),
`Scope.define` / `Defs.defineAll` (how the table is built from the source order) and
`Defs.eval` (recursive evaluation through the table): for definitions with distinct names the
table after any permutation of the definitions gives every reference the same definition,
every expression the same value and the same error reports, the duplicate-definition outcome
is the same, and values do not depend on the fuel once there is enough of it.
-/
namespace Pdpy11.Props.C03
open Pdpy11.Model Pdpy11.Model.Defs Pdpy11.Model.Scope Pdpy11.Props.C11

variable {δ : Type}

/-- For definitions with distinct names, a reference finds the same definition after any
permutation of the table. -/
theorem lookup_perm {t t' : List (String × δ)} (hp : t.Perm t') (hn : (t.map Prod.fst).Nodup) (q : String) :
    lookup t' q = lookup t q := by
  induction hp with
  | nil => rfl
  | cons x _ ih =>
    obtain ⟨k, d⟩ := x
    simp only [List.map_cons, List.nodup_cons] at hn
    rw [lookup_cons, lookup_cons, ih hn.2]
  | swap x y l =>
    obtain ⟨k1, d1⟩ := x
    obtain ⟨k2, d2⟩ := y
    simp only [List.map_cons, List.nodup_cons, List.mem_cons, not_or] at hn
    rw [lookup_cons, lookup_cons, lookup_cons, lookup_cons]
    by_cases h1 : k1 = q
    · by_cases h2 : k2 = q
      · exact absurd (h2.trans h1.symm) hn.1.1
      · simp [h1, h2]
    · by_cases h2 : k2 = q <;> simp [h1, h2]
  | trans h1 _ ih1 ih2 =>
    have hn' := (h1.map Prod.fst).nodup_iff.mp hn
    rw [ih2 hn', ih1 hn]

/-- Every expression has the same value and the same error reports after any permutation of
the definitions (chains of any length: the statement is for every fuel). -/
theorem eval_perm {t t' : Table} (hp : t.Perm t') (hn : (t.map Prod.fst).Nodup) (f : Nat) (e : E) :
    eval t' f e = eval t f e := by
  induction f generalizing e with
  | zero => simp [eval]
  | succ f ih =>
    cases e with
    | lit v => simp [eval]
    | ref n => simp only [eval]; rw [lookup_perm hp hn]; cases lookup t n <;> simp [ih]
    | bin op l r => simp only [eval, ih]
    | un op e => simp only [eval, ih]

/-- Moving one definition to any other place of the table. -/
theorem move_definition (a b a' b' : Table) (d : String × E) (h : a ++ b = a' ++ b')
    (hn : ((a ++ d :: b).map Prod.fst).Nodup) (f : Nat) (e : E) :
    eval (a' ++ d :: b') f e = eval (a ++ d :: b) f e := by
  apply eval_perm _ hn
  have h1 : (a ++ d :: b).Perm (d :: (a ++ b)) := List.perm_middle
  have h2 : (a' ++ d :: b').Perm (d :: (a' ++ b')) := List.perm_middle
  rw [← h] at h2
  exact h1.trans h2.symm

/-- More fuel never changes a value: once the fuel suffices for the chain, the value is
independent of it. -/
theorem fuel_mono (t : Table) (f : Nat) (e : E) (r : R) (h : eval t f e = some r) :
    eval t (f + 1) e = some r := by
  induction f generalizing e r with
  | zero => simp [eval] at h
  | succ f ih =>
    cases e with
    | lit v => simpa [eval] using h
    | ref n =>
      simp only [eval] at h ⊢
      cases hl : lookup t n with
      | none => simpa [hl] using h
      | some e' => rw [hl] at h; simpa using ih e' r h
    | bin op l r' =>
      simp only [eval] at h
      cases ha : eval t f l with
      | none => simp [ha] at h
      | some a =>
        cases hb : eval t f r' with
        | none => simp [ha, hb] at h
        | some b =>
          have h1 := ih l a ha
          have h2 := ih r' b hb
          rw [eval, h1, h2]
          simpa [ha, hb] using h
    | un op e' =>
      simp only [eval] at h
      cases ha : eval t f e' with
      | none => simp [ha] at h
      | some a =>
        have h1 := ih e' a ha
        rw [eval, h1]
        simpa [ha] using h

theorem fuel_irrelevant (t : Table) (f g : Nat) (e : E) (r : R) (h : eval t f e = some r) (hg : f ≤ g) :
    eval t g e = some r := by
  induction hg with
  | refl => exact h
  | step _ ih => exact fuel_mono t _ e r ih

/-- Two sufficient amounts of fuel agree. -/
theorem fuel_unique (t : Table) (f g : Nat) (e : E) (r s : R) (h1 : eval t f e = some r) (h2 : eval t g e = some s) :
    r = s := by
  rcases Nat.le_total f g with h | h
  · have := fuel_irrelevant t f g e r h1 h; rw [h2] at this; exact (Option.some.inj this).symm
  · have := fuel_irrelevant t g f e s h2 h; rw [h1] at this; exact Option.some.inj this

/-! ### how the table is built: source order only decides the order of the entries -/

theorem defineAll_spec (t : Table) (defs : List (String × E))
    (hn : ((t ++ defs).map Prod.fst).Nodup) : defineAll t defs = some (t ++ defs) := by
  induction defs generalizing t with
  | nil => simp [defineAll]
  | cons d rest ih =>
    obtain ⟨n, e⟩ := d
    have hnot : n ∉ t.map Prod.fst := by
      intro hmem
      rw [List.map_append, List.nodup_append] at hn
      exact hn.2.2 n hmem n (by simp) rfl
    have hl : lookup t n = none := lookup_none_of_not_mem t n hnot
    simp only [defineAll, define, hl]
    have : ((t ++ [(n, e)] ++ rest).map Prod.fst).Nodup := by simpa using hn
    simpa using ih (t ++ [(n, e)]) this

/-- A second definition of a name is refused wherever it stands. -/
theorem defineAll_dup (t : Table) (defs : List (String × E))
    (hd : ¬ ((t ++ defs).map Prod.fst).Nodup) (ht : (t.map Prod.fst).Nodup) : defineAll t defs = none := by
  induction defs generalizing t with
  | nil => simp at hd; exact absurd ht hd
  | cons d rest ih =>
    obtain ⟨n, e⟩ := d
    by_cases hmem : n ∈ t.map Prod.fst
    · have := lookup_some_of_mem t n hmem
      cases hl : lookup t n with
      | none => simp [hl] at this
      | some x => simp [defineAll, define, hl]
    · have hl : lookup t n = none := lookup_none_of_not_mem t n hmem
      simp only [defineAll, define, hl]
      apply ih
      · simpa using hd
      · rw [List.map_append, List.nodup_append]
        refine ⟨ht, by simp, ?_⟩
        intro a ha b hb
        simp at hb
        subst hb
        intro hab
        exact hmem (hab ▸ ha)

/-- The whole observable result — refused (a duplicate) or the list of emitted values with
their error reports — is the same for every order of the definitions. -/
theorem image_perm (defs defs' : List (String × E)) (hp : defs.Perm defs') (uses : List E) (fuel : Nat) :
    image defs' uses fuel = image defs uses fuel := by
  unfold image
  by_cases hn : (defs.map Prod.fst).Nodup
  · have hn' : (defs'.map Prod.fst).Nodup := (hp.map Prod.fst).nodup_iff.mp hn
    rw [defineAll_spec [] defs (by simpa using hn), defineAll_spec [] defs' (by simpa using hn')]
    simp only [List.nil_append]
    congr 1
    apply List.map_congr_left
    intro e _
    exact eval_perm hp hn fuel e
  · have hn' : ¬ (defs'.map Prod.fst).Nodup := fun h => hn ((hp.map Prod.fst).nodup_iff.mpr h)
    rw [defineAll_dup [] defs (by simpa using hn) (by simp), defineAll_dup [] defs' (by simpa using hn') (by simp)]

/-! ### chains of any length -/

/-- `x0 = c`, `x1 = x0 + 1`, …, written as names `"0"`, `"1"`, … (any injective naming would do) -/
def chainName (i : Nat) : String := String.ofList (Scope.digits i)

def chain (c : Int) : Nat → Table
  | 0 => [(chainName 0, .lit c)]
  | n + 1 => chain c n ++ [(chainName (n + 1), .bin "add" (.ref (chainName n)) (.lit 1))]

theorem lookup_append_of_some (t u : List (String × δ)) (q : String) (d : δ) (h : lookup t q = some d) :
    lookup (t ++ u) q = some d := by
  induction t with
  | nil => simp [lookup] at h
  | cons a t ih =>
    obtain ⟨k, x⟩ := a
    rw [List.cons_append, lookup_cons]
    rw [lookup_cons] at h
    by_cases hk : k = q
    · simpa [hk] using h
    · simp only [hk, if_false] at h ⊢
      exact ih h

/-- Adding definitions (of any names) does not change a value that was computed without an
error report: later definitions cannot capture a reference that already has a definition. -/
theorem eval_append_of_ok (t u : Table) (f : Nat) (e : E) (r : R) (h : eval t f e = some r) (hr : r.errs = []) :
    eval (t ++ u) f e = some r := by
  induction f generalizing e r with
  | zero => simp [eval] at h
  | succ f ih =>
    cases e with
    | lit v => simpa [eval] using h
    | ref n =>
      simp only [eval] at h ⊢
      cases hl : lookup t n with
      | some e' => rw [hl] at h; rw [lookup_append_of_some t u n e' hl]; exact ih e' r h hr
      | none =>
        rw [hl] at h
        have := Option.some.inj h
        subst this
        simp at hr
    | bin op l r' =>
      simp only [eval] at h
      cases ha : eval t f l with
      | none => simp [ha] at h
      | some a =>
        cases hb : eval t f r' with
        | none => simp [ha, hb] at h
        | some b =>
          rw [ha, hb] at h
          have hab : a.errs = [] ∧ b.errs = [] := by
            cases ho : Ops.binop op a.val b.val with
            | none => simp [ho] at h; subst h; simp at hr
            | some p =>
              obtain ⟨v, er⟩ := p
              simp [ho] at h; subst h
              simp at hr
              exact ⟨hr.1, hr.2.1⟩
          rw [eval, ih l a ha hab.1, ih r' b hb hab.2]
          exact h
    | un op e' =>
      simp only [eval] at h
      cases ha : eval t f e' with
      | none => simp [ha] at h
      | some a =>
        rw [ha] at h
        have haa : a.errs = [] := by
          cases ho : Ops.unop op a.val with
          | none => simp [ho] at h; subst h; simp at hr
          | some p =>
            obtain ⟨v, er⟩ := p
            simp [ho] at h; subst h
            simp at hr
            exact hr.1
        rw [eval, ih e' a ha haa]
        exact h

theorem chainName_injective (i j : Nat) (h : chainName i = chainName j) : i = j := by
  unfold chainName at h
  have := congrArg String.toList h
  simp at this
  exact Pdpy11.Props.C11.digits_injective i j this

theorem chain_names (c : Int) (n : Nat) (q : String) (h : q ∈ (chain c n).map Prod.fst) : ∃ i, i ≤ n ∧ q = chainName i := by
  induction n with
  | zero => simp [chain] at h; exact ⟨0, Nat.le_refl _, h⟩
  | succ n ih =>
    simp only [chain, List.map_append, List.mem_append, List.map_cons, List.map_nil, List.mem_singleton] at h
    rcases h with h | h
    · obtain ⟨i, hi, hq⟩ := ih h
      exact ⟨i, Nat.le_succ_of_le hi, hq⟩
    · exact ⟨n + 1, Nat.le_refl _, h⟩

/-- A chain of additive definitions of any length `n` evaluates to `c + n`, with fuel `2n + 2`. -/
theorem chain_value (c : Int) (n : Nat) :
    eval (chain c n) (2 * n + 2) (.ref (chainName n)) = some ⟨c + n, []⟩ := by
  induction n with
  | zero => simp [chain, eval, lookup_cons]
  | succ n ih =>
    have hnew : lookup (chain c n) (chainName (n + 1)) = none := by
      apply lookup_none_of_not_mem
      intro hmem
      obtain ⟨i, hi, hq⟩ := chain_names c n _ hmem
      have := chainName_injective _ _ hq
      omega
    have hl : lookup (chain c (n + 1)) (chainName (n + 1)) = some (.bin "add" (.ref (chainName n)) (.lit 1)) := by
      simp only [chain]
      unfold lookup at hnew ⊢
      rw [List.find?_append]
      cases hf : List.find? (fun e => e.1 == chainName (n + 1)) (chain c n) with
      | some x => simp [hf] at hnew
      | none => simp [List.find?]
    have hprev := eval_append_of_ok (chain c n) [(chainName (n + 1), .bin "add" (.ref (chainName n)) (.lit 1))] _ _ _ ih rfl
    have h2 : 2 * (n + 1) + 2 = (2 * n + 2 + 1) + 1 := by omega
    rw [h2, eval, hl]
    simp only []
    rw [eval]
    have hp2 : eval (chain c (n + 1)) (2 * n + 2) (.ref (chainName n)) = some ⟨c + n, []⟩ := hprev
    have hlit : eval (chain c (n + 1)) (2 * n + 2) (.lit 1) = some ⟨1, []⟩ := by
      have : 2 * n + 2 = (2 * n + 1) + 1 := by omega
      rw [this, eval]
    rw [hp2, hlit]
    simp [Ops.binop]
    omega

/-- the same chain with its definitions in any order -/
theorem chain_value_any_order (c : Int) (n : Nat) (t' : Table) (hp : (chain c n).Perm t')
    (hn : ((chain c n).map Prod.fst).Nodup) :
    eval t' (2 * n + 2) (.ref (chainName n)) = some ⟨c + n, []⟩ := by
  rw [eval_perm hp hn, chain_value]

/-! ### the statements are not vacuous -/

/-- two files' worth of definitions in two orders, used forwards and backwards, with a non-linear
operator and an undefined name -/
example :
    image [("a", .bin "mul" (.ref "b") (.lit 3)), ("b", .bin "add" (.ref "c") (.lit 1)), ("c", .lit 5)]
      [.ref "a", .bin "div" (.ref "a") (.ref "zz")] 20
    = some [some ⟨18, []⟩, some ⟨0, ["undefined-symbol", "arithmetic-error"]⟩] := by decide

example :
    image [("c", .lit 5), ("a", .bin "mul" (.ref "b") (.lit 3)), ("b", .bin "add" (.ref "c") (.lit 1))]
      [.ref "a", .bin "div" (.ref "a") (.ref "zz")] 20
    = some [some ⟨18, []⟩, some ⟨0, ["undefined-symbol", "arithmetic-error"]⟩] := by decide

/-- a second definition is refused in both orders -/
example : image [("a", .lit 1), ("b", .lit 2), ("a", .lit 3)] [.ref "a"] 9 = none
    ∧ image [("a", .lit 3), ("a", .lit 1), ("b", .lit 2)] [.ref "a"] 9 = none := by decide

/-- a cycle runs out of any fuel -/
example : eval [("a", .ref "b"), ("b", .ref "a")] 50 (.ref "a") = none := by decide

/-! ## second part -/
open Pdpy11.Model Pdpy11.Model.Defs Pdpy11.Model.Scope

/-- every reference in `e` to a name the table defines has rank below `k` -/
def RefsBelow (t : Table) (rk : String → Nat) (k : Nat) : E → Prop
  | .lit _ => True
  | .ref n => (lookup t n).isSome → rk n < k
  | .bin _ l r => RefsBelow t rk k l ∧ RefsBelow t rk k r
  | .un _ e => RefsBelow t rk k e

/-- the table is acyclic: a rank decreases along every reference; `S` bounds the body sizes -/
def Acyclic (t : Table) (rk : String → Nat) (S : Nat) : Prop :=
  ∀ n body, lookup t n = some body → RefsBelow t rk (rk n) body ∧ body.size ≤ S

theorem refsBelow_mono (t : Table) (rk : String → Nat) (k k' : Nat) (h : k ≤ k') (e : E) (hb : RefsBelow t rk k e) :
    RefsBelow t rk k' e := by
  induction e with
  | lit v => trivial
  | ref n => intro hs; exact Nat.lt_of_lt_of_le (hb hs) h
  | bin op l r ihl ihr => exact ⟨ihl hb.1, ihr hb.2⟩
  | un op e ih => exact ih hb

theorem size_pos (e : E) : 0 < e.size := by cases e <;> simp [E.size] <;> omega

theorem eval_bin_isSome (t : Table) (f : Nat) (op : String) (l r : E) (h1 : (eval t f l).isSome) (h2 : (eval t f r).isSome) :
    (eval t (f + 1) (.bin op l r)).isSome := by
  cases ha : eval t f l with
  | none => simp [ha] at h1
  | some a =>
    cases hb : eval t f r with
    | none => simp [hb] at h2
    | some b =>
      simp only [eval, ha, hb]
      cases Ops.binop op a.val b.val with
      | none => rfl
      | some p => rfl

theorem eval_un_isSome (t : Table) (f : Nat) (op : String) (e : E) (h1 : (eval t f e).isSome) :
    (eval t (f + 1) (.un op e)).isSome := by
  cases ha : eval t f e with
  | none => simp [ha] at h1
  | some a =>
    simp only [eval, ha]
    cases Ops.unop op a.val with
    | none => rfl
    | some p => rfl

/-- with fuel `size e + k·(S+1)` every expression whose defined references rank below `k` gets a
value (possibly with error reports) -/
theorem eval_some_of_rank (t : Table) (rk : String → Nat) (S : Nat) (hac : Acyclic t rk S) (k : Nat) :
    ∀ e, RefsBelow t rk k e → ∀ f, e.size + k * (S + 1) ≤ f → (eval t f e).isSome := by
  induction k with
  | zero =>
    intro e
    induction e with
    | lit v => intro _ f hf; cases f with | zero => simp [E.size] at hf | succ f => simp [eval]
    | ref n =>
      intro hb f hf
      cases f with
      | zero => simp [E.size] at hf
      | succ f =>
        simp only [eval]
        cases hl : lookup t n with
        | none => simp
        | some body => have := hb (by simp [hl]); omega
    | bin op l r ihl ihr =>
      intro hb f hf
      cases f with
      | zero => simp [E.size] at hf
      | succ f =>
        simp only [E.size] at hf
        exact eval_bin_isSome t f op l r (ihl hb.1 f (by omega)) (ihr hb.2 f (by omega))
    | un op e ih =>
      intro hb f hf
      cases f with
      | zero => simp [E.size] at hf
      | succ f =>
        simp only [E.size] at hf
        exact eval_un_isSome t f op e (ih hb f (by omega))
  | succ k ihk =>
    intro e
    induction e with
    | lit v => intro _ f hf; cases f with | zero => simp [E.size] at hf | succ f => simp [eval]
    | ref n =>
      intro hb f hf
      cases f with
      | zero => simp [E.size] at hf
      | succ f =>
        simp only [eval]
        cases hl : lookup t n with
        | none => simp
        | some body =>
          have hrk : rk n < k + 1 := hb (by simp [hl])
          have ⟨hrefs, hsz⟩ := hac n body hl
          have hrefs' : RefsBelow t rk k body := refsBelow_mono t rk (rk n) k (by omega) body hrefs
          apply ihk body hrefs' f
          simp only [E.size] at hf
          have : (k + 1) * (S + 1) = k * (S + 1) + (S + 1) := by rw [Nat.succ_mul]
          omega
    | bin op l r ihl ihr =>
      intro hb f hf
      cases f with
      | zero => simp [E.size] at hf
      | succ f =>
        simp only [E.size] at hf
        exact eval_bin_isSome t f op l r (ihl hb.1 f (by omega)) (ihr hb.2 f (by omega))
    | un op e ih =>
      intro hb f hf
      cases f with
      | zero => simp [E.size] at hf
      | succ f =>
        simp only [E.size] at hf
        exact eval_un_isSome t f op e (ih hb f (by omega))

/-- **Enough fuel exists for every acyclic table.** If the ranks are bounded by `R` and the bodies
by `S`, fuel `size e + (R+1)·(S+1)` gives every expression a value; by `fuel_unique` that value is
the value for every larger fuel. Hence `none` (out of fuel) at that fuel means the definitions are
cyclic. -/
theorem fuel_enough (t : Table) (rk : String → Nat) (R S : Nat) (hac : Acyclic t rk S) (hR : ∀ n, rk n ≤ R) (e : E) :
    (eval t (e.size + (R + 1) * (S + 1)) e).isSome := by
  apply eval_some_of_rank t rk S hac (R + 1) e _ _ (Nat.le_refl _)
  -- every reference ranks below R + 1
  clear hac
  induction e with
  | lit v => trivial
  | ref n => intro _; have := hR n; omega
  | bin op l r ihl ihr => exact ⟨ihl, ihr⟩
  | un op e ih => exact ih

/-- contrapositive: no value at that fuel ⇒ the table is not acyclic for any rank bounded by `R` -/
theorem out_of_fuel_means_cycle (t : Table) (R S : Nat) (e : E) (h : eval t (e.size + (R + 1) * (S + 1)) e = none) :
    ¬ ∃ rk : String → Nat, Acyclic t rk S ∧ ∀ n, rk n ≤ R := by
  rintro ⟨rk, hac, hR⟩
  have := fuel_enough t rk R S hac hR e
  simp [h] at this


/-! ### the lazy engine's arithmetic (`deferred.LinearPolynomial`, Model.Poly) -/

open Pdpy11.Model.Poly Pdpy11.Props.C12.LinPoly in
/-- **whatever was defined first**: two moments of an assembly (or two assemblies of the same
definitions in a different order) know different things about the variables; if both arrive
at a number for the same symbolic value, it is the same number — the arithmetic value -/
theorem lazy_value_order_independent (env : Var → Int) (σ₁ σ₂ : Known)
    (h1 : Consistent env σ₁) (h2 : Consistent env σ₂) (f₁ f₂ : Nat) (p : P) (k₁ k₂ : Int)
    (e1 : waitP σ₁ f₁ p = .value k₁) (e2 : waitP σ₂ f₂ p = .value k₂) : k₁ = k₂ ∧ k₁ = evalP env p :=
  ⟨waitP_deterministic env σ₁ σ₂ h1 h2 f₁ f₂ p k₁ k₂ e1 e2, (waitP_sound env σ₁ h1 f₁ p k₁ e1).symm⟩

end Pdpy11.Props.C03
