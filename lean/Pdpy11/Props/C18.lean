import Pdpy11.Model.State
/-
C18 — assembly is a pure function of its inputs: the module-level state is restored by
every bracketed computation on every exit path.
-/
namespace Pdpy11.Props.C18
open Pdpy11.Model.State

/-- the part of the state a computation may change only transiently: everything except the
    error flags of handlers that were already installed -/
def sameShape (a b : St) : Prop :=
  a.depth = b.depth ∧ a.awaiting = b.awaiting ∧ a.handlers.map (·.1) = b.handlers.map (·.1)

/-- from any state: depth, awaiting stack and the identity of the installed handlers are
    restored on every exit path (only error flags of already-installed handlers may change) -/
theorem run_shape (c : Comp) (st : St) (log : List (Nat × Sev)) : sameShape (run c st log).2.1 st := by
  induction c generalizing st log with
  | ret => simp [run, sameShape]
  | raise e => simp [run, sameShape]
  | seq a b iha ihb =>
    simp only [run]
    cases h : run a st log with
    | mk e r =>
      cases r with
      | mk st' log' =>
        cases e with
        | none =>
          have h1 := iha st log
          rw [h] at h1
          have h2 := ihb st' log'
          simp only [sameShape] at *
          exact ⟨h2.1.trans h1.1, h2.2.1.trans h1.2.1, h2.2.2.trans h1.2.2⟩
        | some x => have h1 := iha st log; rw [h] at h1; exact h1
  | «catch» a caught iha =>
    simp only [run]
    cases h : run a st log with
    | mk e r =>
      cases r with
      | mk st' log' =>
        have h1 := iha st log
        rw [h] at h1
        cases e with
        | none => exact h1
        | some x => simp only; split <;> exact h1
  | tryCompute a iha =>
    simp only [run]
    have h1 := iha { st with depth := st.depth + 1 } log
    cases h : run a { st with depth := st.depth + 1 } log with
    | mk e r =>
      cases r with
      | mk st' log' =>
        rw [h] at h1
        simp only [sameShape] at *
        refine ⟨by simp [h1.1], h1.2.1, h1.2.2⟩
  | awaiting d a iha =>
    simp only [run]
    split
    · simp [sameShape]
    · have h1 := iha { st with awaiting := d :: st.awaiting } log
      cases h : run a { st with awaiting := d :: st.awaiting } log with
      | mk e r =>
        cases r with
        | mk st' log' =>
          rw [h] at h1
          simp only [sameShape] at *
          refine ⟨h1.1, by simp [h1.2.1], h1.2.2⟩
  | handler hh a iha =>
    simp only [run]
    have h1 := iha { st with handlers := (hh, false) :: st.handlers } log
    cases h : run a { st with handlers := (hh, false) :: st.handlers } log with
    | mk e r =>
      cases r with
      | mk st' log' =>
        rw [h] at h1
        simp only [sameShape] at *
        refine ⟨h1.1, h1.2.1, ?_⟩
        have := h1.2.2
        cases hs : st'.handlers with
        | nil => simp [hs] at this
        | cons x xs => simp [hs] at this ⊢; exact this.2
  | report sev =>
    simp only [run]
    cases hs : st.handlers with
    | nil => simp [sameShape]
    | cons x xs =>
      obtain ⟨h, f⟩ := x
      simp [sameShape, hs]

/-- **Every computation built from the bracket classes, started in the initial module state,
leaves it exactly as it found it**, whether it ends normally or with any exception
(`NotReadyError`, `DeferredCycle`, `RecoverableError`, `UnrecoverableError`, anything else) -/
theorem bracket_restores (c : Comp) (log : List (Nat × Sev)) :
    (run c St.init log).2.1 = St.init := by
  have h := run_shape c St.init log
  generalize (run c St.init log).2.1 = st at h
  obtain ⟨d, a, hs⟩ := st
  simp only [sameShape, St.init] at h
  obtain ⟨h1, h2, h3⟩ := h
  have : hs = [] := by simpa using h3
  simp [St.init, h1, h2, this]

/-- **History freedom**: whatever sequence of assemblies ran before, a probe sees the initial
    module state, hence behaves as in a fresh process (as far as this state is concerned) -/
theorem assembly_history_free (history : List Comp) (probe : Comp) (log : List (Nat × Sev)) :
    let st := history.foldl (fun st c => (run c st []).2.1) St.init
    (run probe st log) = (run probe St.init log) := by
  have key : history.foldl (fun st c => (run c st []).2.1) St.init = St.init := by
    induction history with
    | nil => rfl
    | cons c r ih =>
      simp only [List.foldl_cons, bracket_restores]
      exact ih
  simp only [key]

/-- an error report under a handler makes that handler's block end with `UnrecoverableError`
    (the latch C07 builds on) -/
theorem error_latch (h : Nat) (sev : Sev) (hs : sev ≠ .warning) (log : List (Nat × Sev)) :
    (run (.handler h (.report sev)) St.init log).1 = some .unrecoverable := by
  cases sev <;> simp_all [run, St.init]

theorem warning_no_latch (h : Nat) (log : List (Nat × Sev)) :
    (run (.handler h (.report .warning)) St.init log).1 = none := by
  simp [run, St.init]

/-! ### non-vacuity: a computation exercising every bracket and several exit paths -/
example :
    let c := Comp.handler 1 (.seq (.tryCompute (.awaiting 7 (.seq (.report .error) (.raise .notReady))))
                              (.catch (.awaiting 7 (.awaiting 7 .ret)) [.cycle]))
    run c St.init [] = (some .unrecoverable, St.init, [(1, .error)]) := by decide

end Pdpy11.Props.C18
