import Pdpy11.Model.Scope
/-
C11 — symbol scoping and linking.
-/
namespace Pdpy11.Props.C11
open Pdpy11.Model.Scope

/-! ### qualified names determine (scope number, name) -/

def isDig (c : Char) : Bool := '0' ≤ c && c ≤ '9'

theorem digitsAux_all_digits (f n : Nat) : ∀ c ∈ digitsAux f n, isDig c = true := by
  induction f generalizing n with
  | zero =>
    intro c hc
    simp only [digitsAux, List.mem_singleton] at hc
    subst hc
    have : n % 10 < 10 := Nat.mod_lt _ (by omega)
    have h : ∀ d, d < 10 → isDig (Char.ofNat (48 + d)) = true := by decide
    exact h _ this
  | succ f ih =>
    intro c hc
    unfold digitsAux at hc
    split at hc
    · rename_i hlt
      simp only [List.mem_singleton] at hc
      subst hc
      have h : ∀ d, d < 10 → isDig (Char.ofNat (48 + d)) = true := by decide
      exact h _ hlt
    · rcases List.mem_append.mp hc with hc | hc
      · exact ih _ c hc
      · simp only [List.mem_singleton] at hc
        subst hc
        have : n % 10 < 10 := Nat.mod_lt _ (by omega)
        have h : ∀ d, d < 10 → isDig (Char.ofNat (48 + d)) = true := by decide
        exact h _ this

def valOf (ds : List Char) : Nat := ds.foldl (fun acc c => 10 * acc + (c.toNat - 48)) 0

theorem valOf_append (a : List Char) (c : Char) : valOf (a ++ [c]) = 10 * valOf a + (c.toNat - 48) := by
  simp [valOf, List.foldl_append]

theorem valOf_digitsAux (f n : Nat) (h : n ≤ f) : valOf (digitsAux f n) = n := by
  have key : ∀ d, d < 10 → (Char.ofNat (48 + d)).toNat - 48 = d := by decide
  induction f generalizing n with
  | zero =>
    have : n = 0 := by omega
    subst this; decide
  | succ f ih =>
    unfold digitsAux
    split
    · rename_i hlt
      simp [valOf, key n hlt]
    · rw [valOf_append, ih (n / 10) (by omega), key (n % 10) (Nat.mod_lt _ (by omega))]
      omega

/-- the decimal rendering determines the number -/
theorem digits_injective (a b : Nat) (h : digits a = digits b) : a = b := by
  have ha := valOf_digitsAux a a (Nat.le_refl a)
  have hb := valOf_digitsAux b b (Nat.le_refl b)
  unfold digits at h
  rw [h] at ha
  omega

theorem digits_all_digits (n : Nat) : ∀ c ∈ digits n, isDig c = true := digitsAux_all_digits n n

/-- splitting `digits ++ '.' :: rest` at the first non-digit recovers both parts -/
theorem split_at_dot (ds ds' : List Char) (r r' : List Char)
    (hd : ∀ c ∈ ds, isDig c = true) (hd' : ∀ c ∈ ds', isDig c = true)
    (h : ds ++ '.' :: r = ds' ++ '.' :: r') : ds = ds' ∧ r = r' := by
  induction ds generalizing ds' with
  | nil =>
    cases ds' with
    | nil => simp at h; exact ⟨rfl, h⟩
    | cons c cs =>
      simp at h
      have := hd' c (by simp)
      rw [← h.1] at this
      exact absurd this (by decide)
  | cons c cs ih =>
    cases ds' with
    | nil =>
      simp at h
      have := hd c (by simp)
      rw [h.1] at this
      exact absurd this (by decide)
    | cons c' cs' =>
      simp at h
      obtain ⟨r1, r2⟩ := ih cs' (fun x hx => hd x (by simp [hx])) (fun x hx => hd' x (by simp [hx])) h.2
      exact ⟨by rw [h.1, r1], r2⟩

/-- **`.local{k}.name` determines `(k, name)`** (the decimal rendering contains no dot) -/
theorem qualified_injective (k k' : Nat) (n n' : List Char) :
    (qLocalC k n = qLocalC k' n' → k = k' ∧ n = n') ∧
    (qInternalC k n = qInternalC k' n' → k = k' ∧ n = n') ∧
    qLocalC k n ≠ qInternalC k' n' := by
  refine ⟨?_, ?_, ?_⟩
  · intro h
    have h' := List.append_cancel_left h
    obtain ⟨a, b⟩ := split_at_dot _ _ _ _ (digits_all_digits k) (digits_all_digits k') h'
    exact ⟨digits_injective _ _ a, b⟩
  · intro h
    have h' := List.append_cancel_left h
    obtain ⟨a, b⟩ := split_at_dot _ _ _ _ (digits_all_digits k) (digits_all_digits k') h'
    exact ⟨digits_injective _ _ a, b⟩
  · intro h
    have : (qLocalC k n)[1]? = (qInternalC k' n')[1]? := by rw [h]
    simp [qLocalC, qInternalC, localPrefix, internalPrefix] at this

/-! ### lookup -/

variable {δ : Type}

/-- a reference binds to the definition in its own local scope whenever there is one -/
theorem local_binds_own_scope (syms : List (String × δ)) (ex : List (String × String)) (ql qi nm : String) (d : δ)
    (h : lookup syms ql = some d) : resolve syms ex ql qi nm = some d := by
  simp [resolve, h]

/-- a file's own definition takes precedence over an exported symbol of the same name -/
theorem own_definition_first (syms : List (String × δ)) (ex : List (String × String)) (ql qi nm : String) (d : δ)
    (hl : lookup syms ql = none) (h : lookup syms qi = some d) : resolve syms ex ql qi nm = some d := by
  simp [resolve, hl, h]

/-- an exported symbol is visible from every file that has no definition of its own, whatever the
    order of definition, use and export (the tables are the final ones) -/
theorem exported_visible (syms : List (String × δ)) (ex : List (String × String)) (ql qi nm q : String) (d : δ)
    (hl : lookup syms ql = none) (hi : lookup syms qi = none) (he : lookup ex nm = some q) (hq : lookup syms q = some d) :
    resolve syms ex ql qi nm = some d := by
  simp [resolve, hl, hi, he, hq]

/-- a name that is neither defined in the referencing scope or file nor exported is not visible,
    however many other scopes or files define it: local labels of other scopes and private symbols of
    other files are never bound silently -/
theorem invisible_elsewhere (syms : List (String × δ)) (ex : List (String × String)) (ql qi nm : String)
    (hl : lookup syms ql = none) (hi : lookup syms qi = none) (he : lookup ex nm = none) :
    resolve syms ex ql qi nm = none := by
  simp [resolve, hl, hi, he]

/-- the executable model looks the binding up by its qualified name; that is the same lookup -/
theorem resolve_eq_resolveQ (syms : List (String × δ)) (ex : List (String × String)) (ql qi nm : String) :
    resolve syms ex ql qi nm = (resolveQ syms ex ql qi nm).bind (lookup syms) := by
  unfold resolve resolveQ
  cases h1 : lookup syms ql with
  | some d => simp [h1]
  | none =>
    cases h2 : lookup syms qi with
    | some d => simp [h2]
    | none =>
      cases h3 : lookup ex nm with
      | none => simp
      | some q =>
        cases h4 : lookup syms q with
        | none => simp [h4]
        | some d => simp [h4]

/-- a second definition of a visible name is reported and the first one stays -/
theorem duplicate_reports (syms : List (String × δ)) (q : String) (d d' : δ) (h : lookup syms q = some d) :
    define syms q d' = none := by
  simp [define, h]

theorem define_then_lookup (syms syms' : List (String × δ)) (q : String) (d : δ) (h : define syms q d = some syms') :
    lookup syms' q = some d ∧ ∀ q', q' ≠ q → lookup syms' q' = lookup syms q' := by
  unfold define at h
  cases hl : lookup syms q with
  | some x => simp [hl] at h
  | none =>
    simp [hl] at h
    subst h
    constructor
    · unfold lookup at hl ⊢
      have hnone : syms.find? (fun e => e.1 == q) = none := by
        cases hf : syms.find? (fun e => e.1 == q) with
        | none => rfl
        | some x => simp [hf] at hl
      simp [List.find?_append, hnone]
    · intro q' hne
      unfold lookup
      simp only [List.find?_append]
      cases hf : syms.find? (fun e => e.1 == q') with
      | some x => simp
      | none =>
        have : (q == q') = false := by simpa using fun h => hne h.symm
        simp [List.find?, this]

/-! ### non-vacuity -/
example : qLocalC 12 "1$".toList = ".local12.1$".toList ∧ qInternalC 3 "a.b".toList = ".internal3.a.b".toList := by decide
example : resolve [(qInternal 1 "x", 10), (qInternal 2 "x", 20)] [("x", qInternal 2 "x")] (qLocal 5 "x") (qInternal 1 "x") "x" = some 10 := by decide
example : resolve [(qInternal 2 "x", 20)] [("x", qInternal 2 "x")] (qLocal 5 "x") (qInternal 1 "x") "x" = some 20 := by decide
example : resolve [(qInternal 2 "x", 20)] ([] : List (String × String)) (qLocal 5 "x") (qInternal 1 "x") "x" = none := by decide

/-! ## second part: invariants of the table over every history of definition attempts -/

variable {δ : Type}

theorem lookup_cons (k : String) (d : δ) (t : List (String × δ)) (q : String) :
    lookup ((k, d) :: t) q = if k = q then some d else lookup t q := by
  unfold lookup
  by_cases h : k = q
  · simp [List.find?, h]
  · have hb : (k == q) = false := by simp [h]
    simp [List.find?, hb, h]

theorem lookup_none_of_not_mem (t : List (String × δ)) (q : String) (h : q ∉ t.map Prod.fst) :
    lookup t q = none := by
  induction t with
  | nil => simp [lookup]
  | cons a t ih =>
    obtain ⟨k, d⟩ := a
    simp only [List.map_cons, List.mem_cons, not_or] at h
    rw [lookup_cons]
    have : k ≠ q := fun e => h.1 e.symm
    simp [this, ih h.2]

theorem lookup_some_of_mem (t : List (String × δ)) (q : String) (h : q ∈ t.map Prod.fst) :
    (lookup t q).isSome := by
  induction t with
  | nil => simp at h
  | cons a t ih =>
    obtain ⟨k, d⟩ := a
    rw [lookup_cons]
    by_cases hk : k = q
    · simp [hk]
    · simp only [List.map_cons, List.mem_cons] at h
      rcases h with h | h
      · exact absurd h.symm hk
      · simp [hk, ih h]


variable {δ : Type}

/-- one definition attempt: the table afterwards (unchanged when the attempt is refused) -/
def attempt (t : List (String × δ)) (q : String) (d : δ) : List (String × δ) :=
  match define t q d with
  | some t' => t'
  | none => t

def attempts (t : List (String × δ)) : List (String × δ) → List (String × δ)
  | [] => t
  | (q, d) :: rest => attempts (attempt t q d) rest

theorem lookup_append_single (t : List (String × δ)) (q k : String) (d : δ) :
    lookup (t ++ [(k, d)]) q = match lookup t q with
      | some x => some x
      | none => if k = q then some d else none := by
  induction t with
  | nil => simp [lookup_cons, lookup]
  | cons a t ih =>
    obtain ⟨k0, d0⟩ := a
    rw [List.cons_append, lookup_cons, lookup_cons]
    by_cases h : k0 = q
    · simp [h]
    · simp [h, ih]

/-- a definition attempt changes the lookup of no *other* name -/
theorem attempt_other (t : List (String × δ)) (q q' : String) (d : δ) (h : q ≠ q') :
    lookup (attempt t q d) q' = lookup t q' := by
  unfold attempt define
  cases hl : lookup t q with
  | some x => simp
  | none =>
    simp only []
    rw [lookup_append_single]
    cases lookup t q' <;> simp [h]

/-- a binding once made is never changed by later attempts on the same name -/
theorem attempt_keeps (t : List (String × δ)) (q : String) (d x : δ) (h : lookup t q = some x) :
    lookup (attempt t q d) q = some x := by
  unfold attempt define
  simp [h]

/-- a fresh name is bound to the definition given -/
theorem attempt_binds (t : List (String × δ)) (q : String) (d : δ) (h : lookup t q = none) :
    lookup (attempt t q d) q = some d := by
  unfold attempt define
  simp only [h]
  rw [lookup_append_single]
  simp [h]

theorem attempt_nodup (t : List (String × δ)) (q : String) (d : δ) (h : (t.map Prod.fst).Nodup) :
    ((attempt t q d).map Prod.fst).Nodup := by
  unfold attempt define
  cases hl : lookup t q with
  | some x => simpa using h
  | none =>
    simp only [List.map_append, List.map_cons, List.map_nil]
    rw [List.nodup_append]
    refine ⟨h, by simp, ?_⟩
    intro a ha b hb
    simp at hb
    subst hb
    intro hab
    subst hab
    have := lookup_some_of_mem t a ha
    simp [hl] at this

/-- **Invariant over every history of definition attempts**: the keys of the table stay pairwise
distinct (so no name ever has two bindings) … -/
theorem attempts_nodup (t : List (String × δ)) (ops : List (String × δ)) (h : (t.map Prod.fst).Nodup) :
    ((attempts t ops).map Prod.fst).Nodup := by
  induction ops generalizing t with
  | nil => exact h
  | cons op rest ih => obtain ⟨q, d⟩ := op; exact ih _ (attempt_nodup t q d h)

/-- … and a binding that exists at some point is the binding at every later point. -/
theorem attempts_keep (t : List (String × δ)) (ops : List (String × δ)) (q : String) (x : δ) (h : lookup t q = some x) :
    lookup (attempts t ops) q = some x := by
  induction ops generalizing t with
  | nil => exact h
  | cons op rest ih =>
    obtain ⟨q', d⟩ := op
    apply ih
    by_cases hq : q' = q
    · subst hq; exact attempt_keeps t q' d x h
    · rw [attempt_other t q' q d hq]; exact h

/-- the first definition of a name in a history is the one every later reference finds -/
theorem first_definition_wins (t : List (String × δ)) (q : String) (d : δ) (ops : List (String × δ)) (h : lookup t q = none) :
    lookup (attempts t ((q, d) :: ops)) q = some d :=
  attempts_keep _ ops q d (attempt_binds t q d h)

example : lookup (attempts ([] : List (String × Nat)) [("a", 1), ("b", 2), ("a", 3)]) "a" = some 1 := by decide


/-! ### the second definition is refused in every order of events -/

theorem attempts_append (t : List (String × δ)) (a b : List (String × δ)) :
    attempts t (a ++ b) = attempts (attempts t a) b := by
  induction a generalizing t with
  | nil => rfl
  | cons op rest ih => obtain ⟨q, d⟩ := op; simp only [List.cons_append, attempts]; exact ih _

/-- after an attempt on `q` the name is bound (to the old binding or to the new one) -/
theorem attempt_bound (t : List (String × δ)) (q : String) (d : δ) : ∃ x, lookup (attempt t q d) q = some x := by
  cases h : lookup t q with
  | some x => exact ⟨x, attempt_keeps t q d x h⟩
  | none => exact ⟨d, attempt_binds t q d h⟩

/-- **Every second definition (or export) of a name is refused, whatever happened in between**:
    in any history `pre ++ [(q, d)] ++ mid`, however long `mid` is and whatever other names it
    defines, a further definition of `q` is reported as a duplicate (`define … = none`) — there
    is no order of exports, includes and definitions in which the second one slips through. -/
theorem second_definition_refused (t : List (String × δ)) (pre mid : List (String × δ)) (q : String) (d d2 : δ) :
    define (attempts t (pre ++ (q, d) :: mid)) q d2 = none := by
  rw [attempts_append]
  simp only [attempts]
  obtain ⟨x, hx⟩ := attempt_bound (attempts t pre) q d
  have := attempts_keep _ mid q x hx
  exact duplicate_reports _ q x d2 this

/-- and the table is then left as it was: the refused definition binds nothing -/
theorem refused_changes_nothing (t : List (String × δ)) (q : String) (d : δ) (h : define t q d = none) :
    attempt t q d = t := by
  unfold attempt; simp [h]

example : define (attempts ([] : List (String × Nat)) ([("u", 9)] ++ ("x", 1) :: [("lib", 2), ("v", 3)])) "x" 7 = none := by decide

end Pdpy11.Props.C11
