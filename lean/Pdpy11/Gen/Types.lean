/-
Types of the generated tables.  This file is hand-written and stable; the data
files next to it (`Opcodes.lean`, `Operators.lean`, …) are rewritten by
`tools/extract.py` from the *runtime objects* of /repo's working tree on every
check run.
-/
namespace Pdpy11.Gen

/-- the six operand stub classes of `insns.py` -/
inductive StubCls
  | register | registerMode | fp11rm | fp11acc | offset | immediate
deriving Repr, DecidableEq, Inhabited

structure StubG where
  cls : StubCls
  ch : Char
  bits : List Nat
  unsigned : Bool
deriving Repr, DecidableEq, Inhabited

structure InsnG where
  name : String
  /-- the octal pattern as written in `architecture.instruction_opcodes` -/
  raw : List Char
  /-- `Instruction.opcode_pattern` after `insns.init()` (16 symbols) -/
  pattern : List Char
  stubs : List StubG
deriving Repr, DecidableEq, Inhabited

inductive OpKind | infix | prefix | postfix
deriving Repr, DecidableEq, Inhabited

structure OperatorG where
  kind : OpKind
  char : String
  prec : Nat
  leftAssoc : Bool
  awaited : Bool
  pure : Bool
  token : Bool
  fname : String
deriving Repr, DecidableEq, Inhabited

/-- `size=` of a metacommand: absent, a constant, or a function of the operand
count sampled at 0..64 operands -/
inductive SizeG
  | none
  | const (n : Nat)
  | perCount (samples : List Nat)
deriving Repr, DecidableEq, Inhabited

structure MetaG where
  name : String
  names : List String
  minOperands : Nat
  /-- `none` = unbounded -/
  maxOperands : Option Nat
  /-- per declared operand: the annotation name (`int8`, `uint16`, `str`, `CodeBlock`, …) -/
  operandHints : List String
  raw : Bool
  literalString : Bool
  takesCodeBlock : Bool
  size : SizeG
deriving Repr, DecidableEq, Inhabited

/-- two-level run-length encoded sample bytes: blocks of (byte, count) runs, each block repeated -/
abbrev Rle := List (List (Nat × Nat) × Nat)

structure WavEnvG where
  one : Rle
  zero : Rle
  pause : Rle
  sync : Rle
  eof : Rle
  sampleRate : Nat
deriving Repr, DecidableEq, Inhabited

end Pdpy11.Gen
