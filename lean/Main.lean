import Pdpy11.Driver
open Pdpy11.Driver

partial def loop (hin : IO.FS.Stream) (hout : IO.FS.Stream) : IO Unit := do
  let line ← hin.getLine
  if line.isEmpty then return ()
  let l := if line.endsWith "\n" then (line.dropEnd 1).toString else line
  hout.putStrLn (handle l)
  loop hin hout

def main : IO Unit := do
  let hin ← IO.getStdin
  let hout ← IO.getStdout
  loop hin hout
  hout.flush
